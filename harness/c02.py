"""C02 - rewriting imports never changes what the program does.

Correspondence (every case, a generated executable program with top-level import blocks):
  scan_for_import_issues(src) missing / unused lists            vs Scope/Finder.v (exact lists);
  ImportSet(block, ignore_shadowed=True).imports per block      vs Imports/ImportSet.v (the C11 model);
  reformat_import_statements(src): imports of every output block, in order, vs canonical (from_imports true B);
  fix_unused_and_missing_imports(src, remove_unused=True): = removal applied to the reformatted module: the
      reformatted module is spliced back into the term (closed: its rendering must equal pyflyby's text), Finder
      gives its unused list, ImportSem.tidy_block removes per block; compared with the output blocks in order.
Oracle (no model): original, reformatted and tidied module executed side by side under a tracing,
submodule-consistent import universe; compared: new unbound globals, the log of operations on tagged values
(registered functions run after the module), surviving final globals by tag, docstring, exceptions."""
import ast
import json

from . import common as cm
from . import c05
from . import c05_gen as G

REQ = ["Scope.PySyntax", "Scope.Finder", "Scope.PySem", "Scope.Wire", "Imports.Import", "Imports.ImportSet", "Imports.Wire",
       "ImportSem.BlockEnv", "ImportSem.Wire"]
ANCHORS = c05.ANCHORS + ["pyflyby._imports2s:fix_unused_and_missing_imports", "pyflyby._imports2s:reformat_import_statements",
                         "pyflyby._imports2s:SourceToSourceFileImportsTransformation",
                         "pyflyby._imports2s:SourceToSourceImportBlockTransformation"]


# ---------------------------------------------------------------------------------------------
# generator: import blocks at top level, code that uses (some of) them, functions run after the module

def gen_imports(r, g, k):
    out = []
    for _ in range(k):
        out.append(g.imp())
    if r.random() < .12:
        # A, B, A over one name: a repeated identical import around a different binder of the same alias (the last one
        # wins in Python and in ImportSet(ignore_shadowed=True)); the alias is read afterwards (REPEAT_READS)
        alias = r.choice(["pick", "pk2"])
        a = ["from", ["a"], [["one", alias]]]
        b = r.choice([["from", ["m"], [["two", alias]]], ["import", [[["pkg", "sub"], alias]]]])
        pos = r.randint(0, len(out))
        out[pos:pos] = [a, b, ["from", ["a"], [["one", alias]]]]
    return out


# module names that sort before "__future__" (upper case, leading underscore) next to the usual ones
MODS2 = G.MODS + [['Umod'], ['PIL', 'img'], ['_A']]
ROOTS = ('pkg', 'm', 'a', 'n', 'Umod', 'PIL', '_A', 'top')
PACKAGE = "top.mid.low"            # the generated program runs as the module top.mid.low.prog
SUBMODS = ("sub", "b", "img")
FUTURES = ["division", "print_function", "absolute_import"]


def gen_params(r):
    """ImportFormatParams: the property quantifies over all formatting configurations"""
    if r.random() < .4:
        return {}
    p = {}
    if r.random() < .5:
        p["separate_from_imports"] = r.random() < .4
    if r.random() < .4:
        p["align_imports"] = r.choice([True, False, 32])
    if r.random() < .3:
        p["max_line_length"] = r.choice([30, 40, 79])
    if r.random() < .3:
        p["from_spaces"] = r.choice([1, 3])
    if r.random() < .3:
        p["hanging_indent"] = r.choice(["never", "auto", "always"])
    return p


def make_case(seed, i):
    r = cm.rng(seed, "c02", i)
    if i % 10 in (3, 7):
        # a program of fragment 2 / 3 of the unused side (Fragment.u2_block / u3_block, imports bound once): functions and
        # lambdas (i % 10 == 3: comprehensions too), the imports `as` fresh names at top-level positions - what
        # C02_tidy_remove_preserves_trace_stage2 / _stage3 are about
        prog = c05.to_u2(r, G.gen_program(r, True, classes=False, funcs=True, comps=(i % 10 == 3)))
        add_docstrings_dx(r, prog, top=True)
        return {"kind": "exec", "i": i, "prog": G.normalise(prog), "ns": [[G.REG, G.DEC]], "params": gen_params(r),
                "cli": i % 20 == 3}
    g = G.Gen(r, True, maxdepth=2, mods=MODS2)
    prog = []
    if r.random() < .3:
        prog.append(["expr", ["op", "doc", []]])
    fut = r.random() < .25
    rel_reads = []
    for seg in range(r.choice([1, 1, 2, 3])):
        if seg == 0 and fut:
            prog.append(["from", ["__future__"], [[r.choice(FUTURES), None]]])
        prog += gen_imports(r, g, r.randint(1, 4))
        if r.random() < .2:
            # relative imports: every level of the enclosing package has its own identity
            lvl = r.choice([1, 2, 2, 3])
            mod = [""] * lvl + r.choice([[], [], ["m"]])
            nm = r.choice(["tool", "d"])
            al = r.choice([None, None, "rt"])
            prog.append(["from", mod, [[nm, al]]])
            rel_reads.append(al or nm)
        deco_def = None
        if r.random() < .2:
            # a decorated (async) def right after the import block, comment / blank lines in between; the decorators are
            # the only readers of their imports
            nd = r.randint(1, 3)
            decos = []
            for j in range(nd):
                alias = "dk%d%d" % (seg, j)
                prog.append(r.choice([["from", ["m"], [["d", alias]]], ["import", [[["pkg", "sub"], alias]]]]))
                decos.append(["op", "call", [["load", G.DEC, []], ["load", alias, [r.choice(G.ATTRS)]]]])
            for _ in range(r.randint(0, 2)):
                prog.append(r.choice([["blank"], ["comment", "note"]]))
            P = {"posonly": [], "args": [], "vararg": None, "kwonly": [], "kwarg": None, "defaults": [], "kw_defaults": [],
                 "async": r.random() < .6}
            fn = "fd%d" % seg
            deco_def = [["def", fn, decos, P, None, [["expr", ["load", r.choice(G.NAMES), [r.choice(G.ATTRS)]]]]],
                        ["assign", [["n", fn]], ["op", "call", [["load", G.REG, []], ["load", fn, []]]]]]
            prog += deco_def
        if r.random() < .25:
            # a package and one of its submodules, plain, in one block; the submodule is read through the package
            root, sub = r.choice([("pkg", "sub"), ("a", "b"), ("PIL", "img")])
            pair = [["import", [[[root, sub], None]]], ["import", [[[root], None]]]]
            r.shuffle(pair)
            prog += pair
            tail = [["expr", ["load", root, [sub, r.choice(G.ATTRS)]]]]
        else:
            tail = []
        if r.random() < .12:
            prog.append(["expr", ["op", "doc", []]])          # a bare string literal after imports
        for _ in range(r.randint(1, 4)):
            prog += g.stmt(0)
        prog += tail
        # reads of imported-looking names so that operations on them are observed
        for _ in range(r.randint(0, 2)):
            prog.append(["expr", ["load", r.choice(G.NAMES), [r.choice(G.ATTRS)]]])
    if r.random() < .1:
        # an import whose bound name is spelled like a builtin, and is READ (call / attribute): removing it would silently
        # fall back to the builtin - no NameError, but the operation log (the bound OBJECT) differs
        bn = r.choice(["sorted", "max", "open", "zip", "len", "print"])
        prog.append(r.choice([["from", ["m"], [[bn, None]]], ["from", ["pkg"], [[bn, None], ["c", "bq%d" % len(prog)]]],
                              ["import", [[["n"], bn]]], ["from", ["pkg", "sub"], [["d", bn]]]]))
        for _ in range(r.randint(0, 1)):
            prog.append(["expr", ["load", r.choice(G.NAMES), [r.choice(G.ATTRS)]]])
        prog.append(["expr", r.choice([["op", "call", [["load", bn, []], ["load", r.choice(G.NAMES), []]]],
                                       ["load", bn, [r.choice(G.ATTRS)]]])])
    if r.random() < .1:
        # a def / async def with a *name / **name parameter spelled like an import's bound name of the enclosing scope;
        # the first read of that global comes after the def
        al, fn = "vk%d" % len(prog), "fv%d" % len(prog)
        P = {"posonly": [], "args": [], "vararg": None, "kwonly": [], "kwarg": None, "defaults": [], "kw_defaults": [],
             "async": r.random() < .3}
        P[r.choice(["vararg", "kwarg"])] = [al, None]
        if r.random() < .4:
            P["args"] = [[r.choice(G.NAMES), None]]
        prog.append(r.choice([["from", ["m"], [["d", al]]], ["import", [[["pkg", "sub"], al]]], ["import", [[["n"], al]]]]))
        prog += [["def", fn, [], P, None, [r.choice([["pass"], ["expr", ["load", al, []]]])]],
                 ["assign", [["n", fn]], ["op", "call", [["load", G.REG, []], ["load", fn, []]]]]]
        for _ in range(r.randint(0, 1)):
            prog.append(["expr", ["load", r.choice(G.NAMES), [r.choice(G.ATTRS)]]])
        prog.append(["expr", ["load", al, [r.choice(G.ATTRS)]]])
    if r.random() < .1:
        # a class statement nested in a function; its CLASS-LEVEL statements are the only readers of a top-level import that
        # stands after the def (and before the call: registered functions run after the module)
        fn, cn, al = "fk%d" % len(prog), "kc%d" % len(prog), "ki%d" % len(prog)
        P = {"posonly": [], "args": [], "vararg": None, "kwonly": [], "kwarg": None, "defaults": [], "kw_defaults": []}
        cbody = [["assign", [["n", "cv"]], ["load", al, [r.choice(G.ATTRS)]]]]
        if r.random() < .5:
            cbody.append(["expr", ["op", "call", [["load", al, [r.choice(G.ATTRS)]], ["load", al, []]]]])
        fbody = [["class", cn, [], [], [], cbody]]
        if r.random() < .4:
            fbody.insert(0, ["expr", ["load", r.choice(G.NAMES), [r.choice(G.ATTRS)]]])
        prog += [["def", fn, [], P, None, fbody],
                 ["assign", [["n", fn]], ["op", "call", [["load", G.REG, []], ["load", fn, []]]]]]
        for _ in range(r.randint(0, 2)):
            prog.append(["expr", ["load", r.choice(G.NAMES), [r.choice(G.ATTRS)]]])
        prog.append(r.choice([["from", ["m"], [["d", al]]], ["import", [[["pkg", "sub"], al]]]]))
    if r.random() < .06:
        # a store to an imported name inside a block that does not execute (`if 0:` / `while 0:`), the name read afterwards
        tops = [n for st in prog if st[0] in ("import", "from") and st[1] != ["__future__"] for n in c05.stmt_binds(st)]
        if tops:
            nm = r.choice(tops)
            prog.append([r.choice(["if", "while"]), ["op", "const0", []], [["assign", [["n", nm]], ["op", "const", []]]], []])
            prog.append(["expr", ["load", nm, [r.choice(G.ATTRS)]]])
    for nm in rel_reads:
        prog.append(["expr", ["load", nm, [r.choice(G.ATTRS)]]])
    for nm in ("pick", "pk2"):
        if any(s[0] in ("from", "import") and any((it[1] == nm) for it in (s[2] if s[0] == "from" else s[1])) for s in prog):
            prog.append(["expr", ["load", nm, [r.choice(G.ATTRS)]]])
    add_docstrings(r, prog, top=True)
    # imports that are read only by a doctest example (or named only in braces)
    docs = []
    c05.walk(prog, lambda s, p: docs.append(s) if s[0] == "doc" else None)
    k0 = 0
    while k0 < len(prog) and (prog[k0][0] == "doc" or (prog[k0][0] == "expr" and prog[k0][1][:2] == ["op", "doc"])
                              or (prog[k0][0] == "from" and prog[k0][1] == ["__future__"])):
        k0 += 1
    for j, d in enumerate(docs[:3]):
        if r.random() < .7:
            alias = "dt%d" % j
            if r.random() < .3:
                # the first example of the docstring documents a SyntaxError: pyflyby must skip it and go on
                d[1].insert(0, ["bad", r.choice(["print 1", "def f(:", "x ="])])
            k = r.random()
            if k < .2:
                # the only reader of the import is an example holding an invalid escape sequence ("\D" in a non-raw
                # docstring): compiles with a SyntaxWarning - the example (and its reads) must count at every log level
                d[1].append(["expr", ["op", "call", [["load", alias, [r.choice(G.ATTRS)]], ["op", "esc", []]]]])
            elif k < .75:
                d[1].append(["expr", ["load", alias, [r.choice(G.ATTRS)]]])
            else:
                d[2].append(alias)
            prog.insert(k0, r.choice([["from", ["m"], [["d", alias]]], ["import", [[["pkg", "sub"], alias]]]]))
    return {"kind": "exec", "i": i, "prog": G.normalise(prog), "ns": [[G.REG, G.DEC]], "params": gen_params(r),
            "cli": i % 6 == 1}


def add_docstrings_dx(r, body, top=False):
    """docstrings of the fragment of C02_tidy_fix_preserves_trace_stage2 / _stage3 (Fragment.dx_docs): at the head of the
    module and of def bodies, every doctest example a load-only expression statement (names, attribute chains, calls) or an assignment of one to a name
    that reads the imports of c05.to_u2 (imp1..imp4) or other names; {brace} identifiers from the same pool"""
    pool = ["imp1", "imp2", "imp3", "imp4"] + G.NAMES[:4]

    def doc():
        exs = []
        for _ in range(r.randint(0, 3)):
            ld = ["load", r.choice(pool), [r.choice(G.ATTRS) for _ in range(r.choice([0, 1, 1, 2]))]]
            k = r.random()
            if k < .5:
                exs.append(["expr", ld])
            elif k < .8:
                exs.append(["expr", ["op", "call", [ld, ["load", r.choice(pool), []]]]])
            elif k < .9:
                exs.append(["expr", ["op", "call", [ld, ["op", "esc", []]]]])
            else:
                exs.append(["assign", [["n", r.choice(["dv1", "dv2"] + pool[4:])]], ld])     # >>> name = load
        return ["doc", exs, [r.choice(pool) for _ in range(r.choice([0, 0, 1, 2]))]]
    for s in list(body):
        if s[0] == "def":
            add_docstrings_dx(r, s[5])
            if r.random() < .4:
                s[5].insert(0, doc())
        elif s[0] == "for":
            add_docstrings_dx(r, s[3]); add_docstrings_dx(r, s[4])
        elif s[0] in ("while", "if"):
            add_docstrings_dx(r, s[2]); add_docstrings_dx(r, s[3])
        elif s[0] == "with":
            add_docstrings_dx(r, s[2])
        elif s[0] == "try":
            add_docstrings_dx(r, s[1]); add_docstrings_dx(r, s[3]); add_docstrings_dx(r, s[4])
    if top and r.random() < .6:
        body.insert(0, doc())


def gen_docstring(r):
    exs = []
    for _ in range(r.randint(0, 3)):
        ld = ["load", r.choice(G.NAMES), [r.choice(G.ATTRS) for _ in range(r.choice([0, 1, 1, 2]))]]
        k = r.random()
        if k < .5:
            exs.append(["expr", ld])
        elif k < .8:
            exs.append(["expr", ["op", "call", [ld, ["load", r.choice(G.NAMES), []]]]])
        else:
            exs.append(["assign", [["n", r.choice(G.NAMES)]], ld])
    if r.random() < .1:
        exs.insert(0, r.choice([["import", [[["m"], None]]], ["from", ["pkg"], [["c", r.choice(G.NAMES)]]]]))
    braces = [r.choice(G.NAMES) for _ in range(r.choice([0, 0, 1, 2]))]
    return ["doc", exs, braces]


def add_docstrings(r, body, top=False, container=False):
    """docstrings with doctest examples and {brace} identifiers at the head of module / def / async def / class /
    method bodies (and after an assignment, the Epydoc convention); some defs become `async def`"""
    for s in list(body):
        if s[0] in ("def", "class"):
            if s[0] == "def" and r.random() < .4:
                s[3]["async"] = True
            add_docstrings(r, s[5], container=True)
        elif s[0] == "for":
            add_docstrings(r, s[3]); add_docstrings(r, s[4])
        elif s[0] in ("while", "if"):
            add_docstrings(r, s[2]); add_docstrings(r, s[3])
        elif s[0] == "with":
            add_docstrings(r, s[2])
        elif s[0] == "try":
            add_docstrings(r, s[1]); add_docstrings(r, s[3]); add_docstrings(r, s[4])
    if top:
        if body and body[0][0] == "expr" and body[0][1][:2] == ["op", "doc"]:
            if r.random() < .6:
                body[0] = gen_docstring(r)
        return
    if not container:
        return
    if r.random() < .35:
        body.insert(0, gen_docstring(r))
    elif len(body) > 2 and r.random() < .1:
        k = r.randrange(1, len(body) - 1)
        if body[k][0] == "assign":
            body.insert(k + 1, gen_docstring(r))


def docstrings(prog):
    """the example sources of every docstring statement of the term, one list per docstring"""
    out = []

    def ex_src(x):
        rr = G.Render(G._Recorder())
        rr.stmt1(x, 0)
        return rr.lines[0]

    def f(s, p):
        if s[0] == "doc" and s[1]:
            out.append([ex_src(x) for x in s[1] if x[0] != "bad"])
    c05.walk(prog, f)
    return out


def top_blocks(prog):
    """maximal runs of top-level import statements: list of (first index, last index)"""
    out, k = [], 0
    while k < len(prog):
        if prog[k][0] in ("import", "from"):
            j = k
            while j + 1 < len(prog) and prog[j + 1][0] in ("import", "from"):
                j += 1
            out.append((k, j))
            k = j + 1
        else:
            k += 1
    return out


def stmt_imports(s):
    """(fullname, import_as) pairs of an import statement of the term"""
    if s[0] == "import":
        return [[".".join(d), a or ".".join(d)] for d, a in s[1]]
    return [[".".join(s[1] + [n]), a or n] for n, a in s[2]]


# ---------------------------------------------------------------------------------------------
# implementation side

def ast_blocks(src):
    """import blocks of a source text: list of {"lines": [lo, hi], "imports": [[full, as]], "stmts": term statements}"""
    import warnings
    with warnings.catch_warnings():
        warnings.simplefilter("ignore", SyntaxWarning)        # the harness's own parse of "\\D" examples: not pyflyby's
        tree = ast.parse(src)
    out, cur = [], None
    for st in tree.body:
        if isinstance(st, (ast.Import, ast.ImportFrom)):
            if cur is None:
                cur = {"lines": [st.lineno, st.end_lineno], "imports": [], "stmts": []}
                out.append(cur)
            cur["lines"][1] = st.end_lineno
            if isinstance(st, ast.Import):
                cur["imports"] += [[a.name, a.asname or a.name] for a in st.names]
                cur["stmts"].append(["import", [[a.name.split("."), a.asname] for a in st.names]])
            else:
                mod = "." * st.level + (st.module or "")
                cur["imports"] += [[mod + ("" if mod.endswith(".") else ".") + a.name, a.asname or a.name] for a in st.names]
                comps = [""] * st.level + (st.module.split(".") if st.module else [])
                cur["stmts"].append(["from", comps, [[a.name, a.asname] for a in st.names]])
        else:
            cur = None
    return out


def impl_case(c):
    from pyflyby._imports2s import fix_unused_and_missing_imports, reformat_import_statements
    from pyflyby._importclns import ImportSet
    from pyflyby._importdb import ImportDB
    from pyflyby._importstmt import Import
    from pyflyby._parse import PythonBlock
    from pyflyby._importstmt import ImportFormatParams
    src = c["src"]
    params = ImportFormatParams(**c.get("params", {}))
    out = c05.impl_case({"kind": "free", "src": src, "ns": c["ns"]})
    out["scandoc"] = scan_doc(src)
    out["blocks"] = ast_blocks(src)
    for b in out["blocks"]:
        s = ImportSet([Import.from_parts(f, a) for f, a in b["imports"]], ignore_shadowed=True)
        b["set"] = [[i.fullname, i.import_as] for i in s.imports]
    for key, fn in (("reformat", lambda: reformat_import_statements(PythonBlock(src), params=params)),
                    ("tidy", lambda: fix_unused_and_missing_imports(PythonBlock(src), db=ImportDB(""), add_missing=False,
                                                                    add_mandatory=False, remove_unused=True, params=params))):
        try:
            text = str(fn())
            out[key] = {"text": text, "blocks": ast_blocks(text)}
        except Exception as e:
            out[key] = {"exc": type(e).__name__, "msg": str(e)[:200]}
    if c.get("cli"):
        out["cli"] = cli_runs(src, c.get("params", {}))
    nsn = [n for lv in c["ns"] for n in lv]
    docs = c.get("docs", [])
    out["run"] = {"orig": run_tagged(src, nsn, docs)}
    for key in ("reformat", "tidy"):
        if "text" in out[key]:
            out["run"][key] = run_tagged(out[key]["text"], nsn, docs)
    return out


CLI_VARIANTS = [("default", [], None), ("--debug", ["--debug"], None), ("--verbose", ["--verbose"], None),
                ("PYFLYBY_LOG_LEVEL=DEBUG", [], "DEBUG"), ("PYFLYBY_LOG_LEVEL=WARNING", [], "WARNING"),
                ("PYFLYBY_LOG_LEVEL=ERROR", [], "ERROR")]


def cli_options(params):
    """the command-line spelling of an ImportFormatParams configuration (every option explicit: the defaults of the
    command line differ from those of the class)"""
    al = params.get("align_imports", True)
    o = ["--separate-from-imports" if params.get("separate_from_imports", True) else "--no-separate-from-imports",
         "--align-imports=%s" % ("1" if al is True else "0" if al is False else al),
         "--from-spaces=%d" % params.get("from_spaces", 1),
         "--hanging-indent=%s" % params.get("hanging_indent", "never")]
    if params.get("max_line_length"):
        o.append("--width=%d" % params["max_line_length"])
    return o


def cli_runs(src, params):
    """the real command line: bin/tidy-imports --print FILE as a subprocess, at the default log level and with
    --debug / --verbose / PYFLYBY_LOG_LEVEL in {DEBUG, WARNING, ERROR}; -> {variant: [exit code, stdout]}"""
    import os
    import subprocess
    import sys
    import tempfile
    out = {}
    with tempfile.TemporaryDirectory(prefix="c02cli") as d:
        path = os.path.join(d, "mod.py")
        with open(path, "w") as f:
            f.write(src)
        for name, extra, lvl in CLI_VARIANTS:
            env = dict(os.environ)
            env.pop("PYFLYBY_LOG_LEVEL", None)
            if lvl:
                env["PYFLYBY_LOG_LEVEL"] = lvl
            try:
                p = subprocess.run([sys.executable, os.path.join(cm.REPO, "bin", "tidy-imports"), "--print"] + cli_options(params)
                                   + extra + [path],
                                   stdin=subprocess.DEVNULL, stdout=subprocess.PIPE, stderr=subprocess.PIPE, env=env, cwd=d,
                                   timeout=25)
                out[name] = [p.returncode, p.stdout.decode("utf-8", "replace")]
            except subprocess.TimeoutExpired:
                out[name] = ["timeout", ""]
    return out


def scan_doc(src):
    from pyflyby._autoimp import scan_for_import_issues
    from pyflyby._parse import PythonBlock
    try:
        m, u = scan_for_import_issues(PythonBlock(src), find_unused_imports=True, parse_docstrings=True)
        return {"missing": [[ln, str(n)] for ln, n in m], "unused": [[ln, imp.fullname, imp.import_as] for ln, imp in u]}
    except Exception as e:
        return {"exc": type(e).__name__, "msg": str(e)[:200]}


def impl_scan(c):
    """second phase: scan of the reformatted module (closed: the text is the rendering of a term)"""
    out = c05.impl_case({"kind": "free", "src": c["src"], "ns": c["ns"]})
    out["scandoc"] = scan_doc(c["src"])
    return out


def run_tagged(src, nsnames, docs=()):
    """execute under the tracing universe; every value derived from an import carries a provenance tag and every
    operation on a tagged value is logged"""
    import builtins
    import dis
    import importlib
    import importlib.abc
    import importlib.machinery
    import inspect
    import sys
    import types

    log = []

    class V:
        def __init__(s, tag='v'):
            object.__setattr__(s, '_tag', tag)
        def __getattr__(s, n):
            if n.startswith('__') and n.endswith('__'):
                raise AttributeError(n)
            log.append((s._tag, '.' + n))
            return V(s._tag + '.' + n)
        def __setattr__(s, n, v): log.append((s._tag, '.' + n + '='))
        def __call__(s, *a, **k):
            log.append((s._tag, '()'))
            return V(s._tag + '()')
        def __iter__(s):
            log.append((s._tag, 'iter'))
            return iter([V(s._tag + '[i]'), V(s._tag + '[i]')])
        def __enter__(s):
            log.append((s._tag, 'enter'))
            return V(s._tag + '.enter')
        def __exit__(s, *a): return False
        def __add__(s, o):
            log.append((s._tag, '+'))
            return V('add')
        def __radd__(s, o):
            log.append((s._tag, 'r+'))
            return V('add')
        def __iadd__(s, o):
            log.append((s._tag, '+='))
            return V('add')
        def __getitem__(s, k):
            log.append((s._tag, '[]'))
            return V(s._tag + '[]')
        def __setitem__(s, k, v): pass
        def __bool__(s): return True
        def __hash__(s): return 1
        def __eq__(s, o): return True
        def __mro_entries__(s, bases): return ()

    lazy = []

    ROOT_LOADS = ('LOAD_NAME', 'LOAD_GLOBAL', 'LOAD_FAST', 'LOAD_FAST_CHECK', 'LOAD_DEREF', 'LOAD_CLASSDEREF',
                  'LOAD_FROM_DICT_OR_GLOBALS', 'LOAD_FROM_DICT_OR_DEREF')

    def chain_root(fr):
        """the name at the root of the attribute chain whose LOAD_ATTR is executing in frame fr (a.b.c -> 'a')"""
        import dis
        ins = [i for i in dis.get_instructions(fr.f_code)]
        k = next((j for j, i in enumerate(ins) if i.offset == fr.f_lasti), None)
        if k is None or ins[k].opname != 'LOAD_ATTR':
            return None
        k -= 1
        while k >= 0 and ins[k].opname == 'LOAD_ATTR':
            k -= 1
        if k >= 0 and ins[k].opname in ROOT_LOADS:
            return ins[k].argval
        return None

    def user_code():
        fr = sys._getframe(2)
        return fr.f_code.co_filename == '<p>' and fr.f_code.co_code[fr.f_lasti] != IMPORT_FROM

    class VMod(types.ModuleType):
        def __getattribute__(s, n):
            if not n.startswith('__') and user_code():
                # every attribute fetch written in the program is an observed operation, whether or not the attribute
                # is already set on the module (fetches made by import statements are not: import order is excluded)
                log.append(('M:' + types.ModuleType.__getattribute__(s, '__name__'), '.' + n))
            return types.ModuleType.__getattribute__(s, n)
        def __getattr__(s, n):
            if n.startswith('__'):
                raise AttributeError(n)
            if n in SUBMODS:
                if user_code():
                    # the submodule was not imported by anything so far: a real package would raise AttributeError.
                    # Recorded with the name the attribute chain is rooted at (None: not a plain name chain)
                    lazy.append((s.__name__ + '.' + n, chain_root(sys._getframe(1))))
                return importlib.import_module(s.__name__ + '.' + n)
            return V(s.__name__ + ':' + n)
        def __call__(s, *a, **k):
            log.append(('M:' + s.__name__, '()'))
            return V(s.__name__ + '()')
        def __iter__(s):
            log.append(('M:' + s.__name__, 'iter'))
            return iter([V(s.__name__ + '[i]'), V(s.__name__ + '[i]')])
        def __enter__(s):
            log.append(('M:' + s.__name__, 'enter'))
            return V(s.__name__ + '.enter')
        def __exit__(s, *a): return False
        def __add__(s, o):
            log.append(('M:' + s.__name__, '+'))
            return V('add')
        def __radd__(s, o): return V('add')
        def __iadd__(s, o): return V('add')
        def __getitem__(s, k):
            log.append(('M:' + s.__name__, '[]'))
            return V(s.__name__ + '[]')
        def __setitem__(s, k, v): pass
        def __mro_entries__(s, bases): return ()

    class Finder(importlib.abc.MetaPathFinder, importlib.abc.Loader):
        def find_spec(self, name, path=None, target=None):
            if name.split('.')[0] in ROOTS:
                return importlib.machinery.ModuleSpec(name, self, is_package=True)
            return None
        def create_module(self, spec):
            m = VMod(spec.name)
            m.__path__ = []
            return m
        def exec_module(self, module):
            pass

    class Rec(dict):
        def __missing__(s, key):
            if key in builtins.__dict__:
                raise KeyError(key)
            s.failed.append(key)
            return V('unbound:' + key)

    DEREF_OP = dis.opmap["LOAD_FROM_DICT_OR_DEREF"]
    IMPORT_FROM = dis.opmap["IMPORT_FROM"]

    class NS(dict):
        def __missing__(s, key):
            fr = sys._getframe(1)
            if fr.f_code.co_code[fr.f_lasti] == DEREF_OP:
                raise KeyError(key)
            if dict.__contains__(g, key):
                return dict.__getitem__(g, key)
            if key in builtins.__dict__:
                raise KeyError(key)
            g.failed.append(key)
            return V('unbound:' + key)

    class Meta(type):
        @classmethod
        def __prepare__(mcls, name, bases, **kw):
            return NS()
        def __new__(mcls, name, bases, ns, **kw):
            return type.__new__(mcls, name, bases, dict(ns))
        def __init__(cls, name, bases, ns, **kw):
            type.__init__(cls, name, bases, dict(ns))

    def build_class(func, name, *bases, **kw):
        return builtins.__build_class__(func, name, *bases, metaclass=Meta)

    reg = []

    def reg_(f):
        if isinstance(f, types.FunctionType):
            reg.append(f)
        return V('reg')

    def tag(v):
        if isinstance(v, V):
            return 'V:' + v._tag
        if isinstance(v, VMod):
            return 'M:' + v.__name__
        if isinstance(v, types.FunctionType):
            return 'func'
        if isinstance(v, type):
            return 'class'
        return type(v).__name__

    g = Rec({n: V('ns:' + n) for n in nsnames})
    g.failed = []
    bdict = dict(builtins.__dict__)
    bdict["__build_class__"] = build_class
    g.update({G.REG: reg_, G.DEC: (lambda v: (lambda f: f)), "__name__": PACKAGE + ".prog", "__package__": PACKAGE,
              "__builtins__": bdict})
    finder = Finder()
    sys.meta_path.insert(0, finder)
    saved = set(sys.modules)
    exc = None
    try:
        try:
            exec(compile(src, '<p>', 'exec'), g)
            i = 0
            while i < len(reg) and i < 2000:
                f = reg[i]
                i += 1
                sig = inspect.signature(f)
                args, kwargs = [], {}
                for p in sig.parameters.values():
                    if p.default is p.empty:
                        if p.kind in (p.POSITIONAL_ONLY, p.POSITIONAL_OR_KEYWORD):
                            args.append(V('arg'))
                        elif p.kind == p.KEYWORD_ONLY:
                            kwargs[p.name] = V('arg')
                log.append(('call', f.__name__))
                res = f(*args, **kwargs)
                if inspect.iscoroutine(res):
                    try:
                        res.send(None)              # run the body of an `async def` (it awaits nothing)
                    except StopIteration:
                        pass
            # the doctest examples, as the doctest module runs them: per docstring, in a copy of the module globals
            for exs in docs:
                globs = Rec(dict(g))
                globs.failed = g.failed
                log.append(('doctest', str(len(exs))))
                for ex in exs:
                    exec(compile(ex + "\n", '<p>', 'exec'), globs)
        except Exception as e:
            exc = type(e).__name__ + ": " + str(e)[:80]
        fin = {k: tag(v) for k, v in g.items() if not k.startswith('__') and k not in (G.REG, G.DEC)}
        try:
            doc = ast.get_docstring(ast.parse(src))
        except Exception:
            doc = None
        return {"unbound": sorted(set(g.failed)), "final": fin, "log": [list(x) for x in log[:4000]], "doc": doc, "exc": exc,
                "lazy": sorted(set(lazy), key=repr)}
    finally:
        sys.meta_path.remove(finder)
        for k in set(sys.modules) - saved:
            del sys.modules[k]


# ---------------------------------------------------------------------------------------------
# model side

def c_imports(l):
    return cm.clist([cm.cpair(cm.cstr(f), cm.cstr(a)) for f, a in l])


def block_expr(imports, removals, sep=True):
    return "run_block %s %s %s" % (cm.cbool(sep), c_imports(imports), cm.clist([cm.cstr(a) for a in removals]))


def same_layout(a, b):
    """same statements on the same lines (alignment spaces inside a line may differ)"""
    if a == b:
        return True
    try:
        ta, tb = ast.parse(a), ast.parse(b)
    except SyntaxError:
        return False
    if ast.dump(ta) != ast.dump(tb):
        return False
    la = [getattr(n, "lineno", None) for n in ast.walk(ta)]
    lb = [getattr(n, "lineno", None) for n in ast.walk(tb)]
    return la == lb


def splice(prog, ref_blocks):
    """the term of the reformatted module: every top-level import block replaced by the statements pyflyby printed"""
    tb = top_blocks(prog)
    if len(tb) != len(ref_blocks):
        return None
    out, k = [], 0
    for (lo, hi), rb in zip(tb, ref_blocks):
        out += prog[k:lo] + [json.loads(json.dumps(s)) for s in rb["stmts"]]
        k = hi + 1
    return out + prog[k:]


# ---------------------------------------------------------------------------------------------
# known findings (classifiers over the generated term)

def binders(prog):
    """name -> list of (fullname, import_as, top-level?) over every import item of the program"""
    acc = {}

    def f(s, p):
        if s[0] in ("import", "from"):
            for full, as_ in stmt_imports(s):
                acc.setdefault(as_.split(".")[0], []).append((full, as_, s))
    c05.walk(prog, f)
    return acc


def incompatible_block(prog):
    """F7: an import block in which two imports bind one top-level name to different objects"""
    for lo, hi in top_blocks(prog):
        seen = {}
        for s in prog[lo:hi + 1]:
            for full, as_ in stmt_imports(s):
                plain = (full == as_)
                name = as_.split(".")[0]
                val = ("pkg", name) if plain else ("obj", full)
                # two imports with the SAME import_as do not conflict in the output: ImportSet(ignore_shadowed) keeps the
                # later one, as Python does; F7 needs two survivors, i.e. different import_as strings over one root name
                if any(a2 != as_ and v2 != val for a2, v2 in seen.get(name, ())):
                    return True
                seen.setdefault(name, []).append((as_, val))
    return False


def binding_sites(prog):
    """name -> number of binding sites (import items, assignments, for / with targets, def, class)"""
    acc = {}

    def f(s, p):
        for n in c05.stmt_binds(s):
            acc[n] = acc.get(n, 0) + 1
    c05.walk(prog, f)
    return acc


def rebinding_import_after_reader(prog):
    """F34: a name that some function / lambda body reads, bound by an import and bound at least twice"""
    b = binders(prog)
    sites = binding_sites(prog)
    multi = {n for n in b if sites.get(n, 0) > 1}
    if not multi:
        return False
    return bool(multi & deferred_reads(prog))


def stale_dotted_key(prog):
    """F16b: the root of a plain dotted import (`import x.y`) is also bound to something that is not the package x
    (an assignment, a def, `from m import x`, `import m as x`): reads of `x.y...` keep resolving to the dotted key"""
    sites = binding_sites(prog)
    plain_roots = {}

    def g(s, p):
        if s[0] == "import":
            for d, a in s[1]:
                if a is None:
                    plain_roots[d[0]] = plain_roots.get(d[0], 0) + 1
    c05.walk(prog, g)
    hit = []

    def f(s, p):
        if s[0] == "import":
            for d, a in s[1]:
                if a is None and len(d) > 1 and sites.get(d[0], 0) > plain_roots.get(d[0], 0):
                    hit.append(1)
    c05.walk(prog, f)
    if hit:
        return True
    # the same through an attribute store: `x.a = v` (or `x.a += v`) leaves the dotted key `x.a`; a later import of x
    # is not marked by reads of `x.a...`
    roots = set()

    def h(s, p):
        if s[0] == "aug":
            if s[2]:
                roots.add(s[1])
        else:
            roots.update(store_roots(s))
    c05.walk(prog, h)
    return bool(roots & set(binders(prog)))


def deferred_reads(prog):
    """names read inside a def body or a lambda body (loads and the bases of attribute stores)"""
    acc = set()

    def ex(e, inside):
        if e is None:
            return
        t = e[0]
        if t == "load":
            if inside:
                acc.add(e[1])
        elif t == "op":
            for x in e[2]:
                ex(x, inside)
        elif t == "attr":
            ex(e[1], inside)
        elif t == "lambda":
            for x in e[2]:
                ex(x, inside)
            ex(e[3], True)
        elif t == "comp":
            for it, tg, ifs in e[2]:
                ex(it, inside)
                for x in ifs:
                    ex(x, inside)
            for x in e[3]:
                ex(x, inside)

    def f(s, p):
        inside = any(k == "def" for k, _ in p)
        for x in c05.stmt_exprs(s):
            ex(x, inside)
        if inside:
            acc.update(store_roots(s))
    c05.walk(prog, f)
    return acc


def store_roots(s):
    """names read as the base of an attribute store (`n.a = v`, `for n.a in ...`, `n.a += v`)"""
    out = []

    def tg(t):
        if t is None:
            return
        if t[0] == "a":
            out.append(t[1])
        elif t[0] == "t":
            for x in t[1]:
                tg(x)
    if s[0] == "assign":
        for t in s[1]:
            tg(t)
    elif s[0] == "for":
        tg(s[1])
    elif s[0] == "with":
        for _, t in s[1]:
            tg(t)
    elif s[0] == "aug":
        out.append(s[1])
    return out


def own_name_reader(prog):
    """F31: a def whose body reads its own name while an import binds that name"""
    b = binders(prog)
    hit = []

    def f(s, p):
        if s[0] == "def" and s[1] in b:
            if s[1] in deferred_reads([s]):
                hit.append(1)
    c05.walk(prog, f)
    return bool(hit)


def all_reads(prog):
    acc = set()

    def ex(e):
        acc2 = []
        c05.sub_exprs(e, acc2)
        for x in acc2:
            if x[0] == "load":
                acc.add(x[1])

    def f(s, p):
        for x in c05.stmt_exprs(s):
            ex(x)
        acc.update(store_roots(s))
    c05.walk(prog, f)
    return acc


def first_iter_reader(prog):
    """F10-firstiter, unused side: an import-bound name that is also a comprehension target and is read in a lambda"""
    b = binders(prog)
    return bool(set(b) & c05.comp_targets(prog) & deferred_reads(prog))


def class_level_reader(prog):
    """F10-classcomp, unused side: a class binds x at class level and reads x somewhere in its body (a nested scope reads
    the GLOBAL x), while an import binds x"""
    b = binders(prog)
    hit = []

    def f(s, p):
        if s[0] == "class" and (c05.block_binds(s[5]) & set(b) & all_reads(s[5])):
            hit.append(1)
    c05.walk(prog, f)
    return bool(hit)


def docstring_promotion(prog):
    """a bare string literal preceded by import statements only: removing them makes it the module docstring"""
    for k, s in enumerate(prog):
        if s[0] == "expr" and s[1][0] == "op" and s[1][1] == "doc":
            return k > 0
        if s[0] not in ("import", "from"):
            return False
    return False


def class_own_name_reader(prog):
    """F10-class, unused side: a class whose body reads the class's own name while an import binds that name"""
    b = binders(prog)
    hit = []

    def f(s, p):
        if s[0] == "class" and s[1] in b and s[1] in all_reads(s[5]):
            hit.append(1)
    c05.walk(prog, f)
    return bool(hit)


def conditional_overwrite(prog):
    """C02c: at module scope, an import of n, then - with no read of n in between - a store to n that may not execute
    (inside an if / while / for body or orelse, an except handler or its `as` name, a for target), then a read of n.
    The finder's store rule is flow-insensitive: it reports the import unused at the store."""
    ev = []

    def tbound(t, acc):
        if t is not None and t[0] == "n":
            acc.add(t[1])
        elif t is not None and t[0] == "t":
            for x in t[1]:
                tbound(x, acc)

    def free(e, bound):
        """loads of the expression that are not resolved by a lambda parameter / comprehension target inside it"""
        if e is None:
            return
        t = e[0]
        if t == "load":
            if e[1] not in bound:
                ev.append(("read", e[1], False))
        elif t == "op":
            for x in e[2]:
                free(x, bound)
        elif t == "attr":
            free(e[1], bound)
        elif t == "lambda":
            for x in e[2]:
                free(x, bound)
            free(e[3], bound | set(e[1]))
        elif t == "comp":
            b2 = set(bound)
            for it, tg, ifs in e[2]:
                free(it, b2)
                tbound(tg, b2)
                for x in ifs:
                    free(x, b2)
            for x in e[3]:
                free(x, b2)

    def reads(exprs):
        for e in exprs:
            free(e, frozenset())

    def tnames(t, cond):
        if t is None:
            return
        if t[0] == "n":
            ev.append(("store", t[1], cond))
        elif t[0] == "a":
            ev.append(("read", t[1], False))
        elif t[0] == "t":
            for x in t[1]:
                tnames(x, cond)

    def blk(b, cond):
        for st in b:
            t = st[0]
            if t in ("def", "class"):
                reads(c05.stmt_exprs(st))
                local = set()
                if t == "def":
                    P = st[3]
                    local = c05.block_binds(st[5]) | {q[0] for q in P["posonly"] + P["args"] + P["kwonly"]
                                                      + [z for z in (P["vararg"], P["kwarg"]) if z]}
                for n in all_reads(st[5]) - local:
                    ev.append(("read", n, False))
                ev.append(("store", st[1], cond))
            elif t in ("import", "from"):
                for n in c05.stmt_binds(st):
                    ev.append(("store", n, cond))
                    ev.append(("imp", n, cond))
            elif t == "for":
                reads([st[2]]); tnames(st[1], True); blk(st[3], True); blk(st[4], True)
            elif t in ("while", "if"):
                reads([st[1]]); blk(st[2], True); blk(st[3], True)
            elif t == "with":
                for e, tg in st[1]:
                    reads([e]); tnames(tg, cond)
                blk(st[2], cond)
            elif t == "try":
                blk(st[1], cond)
                for h in st[2]:
                    if h[0] is not None:
                        reads([h[0]])
                    if h[1]:
                        ev.append(("store", h[1], True))
                    blk(h[2], True)
                blk(st[3], cond); blk(st[4], cond)
            elif t == "doc":
                for n in all_reads([st]):
                    ev.append(("read", n, False))
            else:
                reads(c05.stmt_exprs(st))
                for n in store_roots(st):
                    ev.append(("read", n, False))
                if t == "assign":
                    for tg in st[1]:
                        tnames(tg, cond)
                else:
                    for n in c05.stmt_binds(st):
                        ev.append(("store", n, cond))
    blk(prog, False)
    pending = {}          # n -> state: 1 = imported and untouched since, 2 = conditionally overwritten while unread
    for kind, n, cond in ev:
        if kind == "imp":
            pending[n] = 1
        elif kind == "store":
            if pending.get(n) == 1 and cond:
                pending[n] = 2
            elif pending.get(n) == 1:
                pending.pop(n)
        elif kind == "read":
            if pending.get(n) == 2:
                return True
            pending.pop(n, None)
    return False


def classify(case):
    prog = case["prog"]
    if incompatible_block(prog):
        return "F7"
    if class_own_name_reader(prog):
        return "F10-class"
    if own_name_reader(prog):
        return "F31"
    if rebinding_import_after_reader(prog):
        return "F34"
    if stale_dotted_key(prog):
        return "F16b"
    if first_iter_reader(prog):
        return "F10-firstiter"
    if class_level_reader(prog):
        return "F10-classcomp"
    if conditional_overwrite(prog):
        return "C02c"
    return None


KNOWN_WHAT = {
    "F10-firstiter": "a lambda inside the first iterable of a comprehension reads a global that is also the comprehension target: the read is resolved to the target, the import of the global is removed",
    "F10-classcomp": "a nested scope in a class body reads a global that the class also binds at class level: the read is resolved to the class-level name, the import of the global is removed",
    "docpromo": "every import in front of a bare string literal is removed (or moved), so the string becomes the module docstring",
    "F16b": "`import x.y` (or an attribute store `x.y = v`) leaves a dotted key `x.y` in the scope; after `x` is (re)bound by an import a read of `x.y` still resolves to that key, so that import stays unmarked and is removed",
    "F10-class": "a class's own name is stored inside its body scope: an import of that name read in the class body is reported unused",
    "F7": "an import block binds one name to two different objects; sorting the block changes which binding wins",
    "F31": "a function's own name is stored in its body scope: an import of that name read through the function is reported unused",
    "F34": "a function-body read is resolved at definition time when the name is already bound: the later rebinding import is reported unused",
    "C02c": "a not-yet-read import whose name is stored inside a block that may not execute (if / while / for / except) is reported unused at the store (flow-insensitive rule) and removed; a later read needs it when the block is skipped",
}


# ---------------------------------------------------------------------------------------------
# oracle

def removed_names(before_blocks, after_blocks):
    """names bound by import items that are in the input but not in the output (multiset difference)"""
    from collections import Counter
    a = Counter((f, s) for b in before_blocks for f, s in b["imports"])
    b = Counter((f, s) for blk in after_blocks for f, s in blk["imports"])
    return {s.split(".")[0] for (f, s), n in (a - b).items()}


def plain_paths(prog):
    """dotted paths made reachable by a plain `import a.b.c` somewhere in the program"""
    acc = set()

    def f(s, p):
        if s[0] == "import":
            for d, a in s[1]:
                if a is None:
                    for k in range(2, len(d) + 1):
                        acc.add(".".join(d[:k]))
    c05.walk(prog, f)
    return acc


def otherwise_bound(prog):
    """names bound somewhere in the program by anything but a plain `import name[.sub...]`: aliased and from-imports,
    assignments, loop / with / except targets, def and class names, parameters, lambda parameters, comprehension targets"""
    acc = set()

    def tn(t):
        if t[0] == "n":
            acc.add(t[1])
        elif t[0] == "t":
            for y in t[1]:
                tn(y)

    def ex(e):
        if e is None:
            return
        t = e[0]
        if t == "op":
            for x in e[2]:
                ex(x)
        elif t == "attr":
            ex(e[1])
        elif t == "lambda":
            acc.update(e[1])
            for x in e[2]:
                ex(x)
            ex(e[3])
        elif t == "comp":
            for it, tg, ifs in e[2]:
                ex(it)
                tn(tg)
                for x in ifs:
                    ex(x)
            for x in e[3]:
                ex(x)

    def st(x, path):
        t = x[0]
        if t == "import":
            for d, a in x[1]:
                if a is not None:
                    acc.add(a)
        elif t == "from":
            for n, a in x[2]:
                acc.add(a or n)
        elif t == "assign":
            for y in x[1]:
                tn(y)
            ex(x[2])
        elif t == "aug":
            if not x[2]:
                acc.add(x[1])
            ex(x[3])
        elif t == "expr":
            ex(x[1])
        elif t == "def":
            acc.add(x[1])
            for d in x[2]:
                ex(d)
            P = x[3]
            for k in ("posonly", "args", "kwonly"):
                for n, a in P[k]:
                    acc.add(n)
                    ex(a)
            for k in ("vararg", "kwarg"):
                if P[k] is not None:
                    acc.add(P[k][0])
                    ex(P[k][1])
            for d in P["defaults"]:
                ex(d)
            for d in P["kw_defaults"]:
                ex(d)
            ex(x[4])
        elif t == "class":
            acc.add(x[1])
            for y in x[2] + x[3] + x[4]:
                ex(y)
        elif t == "for":
            tn(x[1])
            ex(x[2])
        elif t in ("while", "if"):
            ex(x[1])
        elif t == "with":
            for e, tg in x[1]:
                ex(e)
                if tg is not None:
                    tn(tg)
        elif t == "try":
            for ty, nm, hb in x[2]:
                ex(ty)
                if nm:
                    acc.add(nm)
        elif t == "doc":
            for y in x[1]:
                if y[0] != "bad":
                    st(y, path)
    c05.walk(prog, st)
    return acc


def compare_runs(kind, base, got, rem, plain=(), other_bound=(), ood=None):
    """None when the rewritten module behaves as the original; otherwise what differs"""
    if base["exc"] is not None:
        return None                                   # the original does not run to the end: nothing is claimed
    if got["exc"] is not None:
        return {"rewritten raises": got["exc"]}
    # a submodule reached through its package although nothing imported it: AttributeError in a real package.  Claimed
    # only where the original had a plain `import pkg.sub` providing it (DESIGN: the only way programs reach pkg.sub)
    # AND the fetch goes through the name bound by that plain import: the attribute chain is rooted at the package's own
    # name and nothing else in the program binds that name.  Reaching pkg.sub through another binding of the package
    # (`import pkg as c`, `from top import pkg as c`, `c = pkg`) relies on the loading side effect of an import whose
    # bound name is not read: outside the property's domain - noted in [ood], not claimed.
    base_paths = set(x[0] for x in base.get("lazy", []))
    newlazy, skipped = [], []
    for path, root in sorted(set(map(tuple, got.get("lazy", []))), key=repr):
        if path in base_paths or path not in plain:
            continue
        if root == path.split(".")[0] and root not in other_bound:
            newlazy.append(path)
        else:
            skipped.append(path)
    if skipped and ood is not None:
        ood.append("submodule reached through another binding of its package")
    if newlazy:
        return {"submodule no longer imported": sorted(set(newlazy))}
    new_unbound = sorted(set(got["unbound"]) - set(base["unbound"]))
    if new_unbound:
        return {"new unbound globals": new_unbound}
    if got["log"] != base["log"]:
        k = next((i for i, (x, y) in enumerate(zip(base["log"], got["log"])) if x != y), min(len(base["log"]), len(got["log"])))
        return {"operation log differs at": k, "original": base["log"][k:k + 3], "rewritten": got["log"][k:k + 3]}
    changed = {k: (base["final"][k], got["final"][k]) for k in got["final"]
               if k in base["final"] and base["final"][k] != got["final"][k] and k not in rem}
    if changed:
        return {"surviving globals changed": changed}
    lost = sorted(k for k in base["final"] if k not in got["final"] and k not in rem)
    if lost:
        return {"globals lost": lost}
    if base["doc"] != got["doc"]:
        return {"docstring": [base["doc"], got["doc"]]}
    return None


# ---------------------------------------------------------------------------------------------

def run_cases(ctx, cases):
    prepared = [c05.prepare(c) for c in cases]
    wcases = [{"src": p[0], "ns": c["ns"], "params": c.get("params", {}), "docs": docstrings(c["prog"]), "cli": c.get("cli")}
              for c, p in zip(cases, prepared)]
    impl = cm.run_impl("c02", "impl_case", wcases, timeout_case=30)
    # phase 1: Finder on the original program
    exprs = [c05.model_expr(c, p[1], p[2]) for c, p in zip(cases, prepared)]
    model = cm.coq_eval_json(c05.REQ, exprs, shard=60)
    # which unused-side fragment each program is in (C02_unused_sound_partial / _stage2, and with them the end-to-end
    # theorems C02_tidy_remove_preserves_trace_stage1 / _stage2), and the proved statement evaluated on it
    for c, p, mo in zip(cases, prepared, model):
        us = mo.get("ustage", 0) if mo.get("star_free", True) else 0
        ctx.bump("ufragment:stage%d" % us if us else "ufragment:outside")
        if us >= 1 and not mo.get("unused_ok", True):
            ctx.disagreement("statement check: stage-%d unused_sound is false on this program" % us,
                             {"src": p[0], "ns": c["ns"], "prog": c["prog"], "kind": "free"}, None, None)
        # the theorems about what tidy really runs (docstrings parsed, trace with doctest examples): fragment 2 / 3 and
        # every doctest example a load-only expression statement (Fragment.dx_docs)
        ds = us if (us >= 2 and mo.get("dx", False)) else 0
        ctx.bump("dfragment:stage%d" % ds if ds else "dfragment:outside")
        if ds and not mo.get("unused_doc_ok", True):
            ctx.disagreement("statement check: stage-%d unused_sound (finder_doc / pysem_doc) is false on this program" % ds,
                             {"src": p[0], "ns": c["ns"], "prog": c["prog"], "kind": "free"}, None, None)
    # phase 2: the reformatted module as a term (closed mode), Finder on it
    ref_cases, ref_idx = [], []
    for k, (c, p, im) in enumerate(zip(cases, prepared, impl)):
        if "__exc__" in im or "__timeout__" in im or "text" not in im.get("reformat", {}):
            continue
        rp = splice(c["prog"], im["reformat"]["blocks"])
        if rp is None:
            ctx.bump("splice_block_count_differs")
            continue
        rc = {"kind": "free", "i": c["i"], "prog": rp, "ns": c["ns"]}
        rsrc, rterm, rids = c05.prepare(rc)
        if not same_layout(rsrc, im["reformat"]["text"]):
            ctx.bump("splice_text_differs")
            continue
        rsrc = im["reformat"]["text"]                 # pyflyby's own text (same statements on the same lines)
        ref_cases.append((rc, rsrc, rterm, rids))
        ref_idx.append(k)
    ref_model = cm.coq_eval_json(c05.REQ, [c05.model_expr(rc, rterm, rids) for rc, rsrc, rterm, rids in ref_cases], shard=60)
    ref_impl = cm.run_impl("c02", "impl_scan", [{"src": rsrc, "ns": rc["ns"]} for rc, rsrc, _, _ in ref_cases], timeout_case=30)
    ref_unused = {}
    for k, (rc, rsrc, rterm, rids), mo, im2 in zip(ref_idx, ref_cases, ref_model, ref_impl):
        d = c05.decode(mo, rids)
        ref_unused[k] = d["scandoc"]["unused"]
        if "scandoc" in im2 and "exc" not in im2["scandoc"] and im2["scandoc"]["unused"] != d["scandoc"]["unused"]:
            ctx.disagreement("scan_for_import_issues(parse_docstrings=True).unused (reformatted module)",
                             {"src": rsrc, "ns": rc["ns"], "prog": rc["prog"], "kind": "free"},
                             im2["scandoc"]["unused"], d["scandoc"]["unused"])
    # phase 3: blocks through the ImportSet model
    bexprs, bindex = [], []
    for k, (c, im) in enumerate(zip(cases, impl)):
        if "__exc__" in im or "__timeout__" in im:
            continue
        for bi, b in enumerate(im["blocks"]):
            sep = c.get("params", {}).get("separate_from_imports", True)
            bexprs.append(block_expr(b["imports"], [], sep))
            bindex.append((k, "orig", bi))
        if k in ref_unused:
            for bi, b in enumerate(im["reformat"]["blocks"]):
                rem = [a for ln, f, a in ref_unused[k] if b["lines"][0] <= ln <= b["lines"][1]]
                bexprs.append(block_expr(b["imports"], rem, c.get("params", {}).get("separate_from_imports", True)))
                bindex.append((k, "ref", bi))
    bres = cm.coq_eval_json(REQ, bexprs, shard=150)
    per = {}
    for (k, which, bi), r in zip(bindex, bres):
        per.setdefault(k, {}).setdefault(which, {})[bi] = r
    for k, (c, p, im, mo) in enumerate(zip(cases, prepared, impl, model)):
        if "__exc__" in im or "__timeout__" in im:
            ctx.bump("worker_exception" if "__exc__" in im else "worker_timeout")
            ctx.count({"src": p[0]}, False)
            continue
        check_case(ctx, c, p[0], p[2], im, c05.decode(mo, p[2]), per.get(k, {}), k in ref_unused)
    ctx.notes["model_evaluations_in_kernel"] = ctx.notes.get("model_evaluations_in_kernel", 0) + len(exprs) + len(ref_cases) + len(bexprs)


def as_pairs(l):
    return [[f, a] for f, a in l]


def check_case(ctx, case, src, ids, im, mo, blocks, have_ref):
    rec = {"i": case.get("i", 0), "kind": "exec", "src": src, "ns": case["ns"], "prog": case["prog"], "cli": case.get("cli")}
    # ---- correspondence
    if "exc" in im["scan"]:
        ctx.disagreement("scan_for_import_issues raised", rec, im["scan"], None)
    else:
        if im["scan"]["missing"] != mo["scan"]["missing"]:
            ctx.disagreement("scan_for_import_issues.missing", rec, im["scan"]["missing"], mo["scan"]["missing"])
        if im["scan"]["unused"] != mo["scan"]["unused"]:
            ctx.disagreement("scan_for_import_issues.unused", rec, im["scan"]["unused"], mo["scan"]["unused"])
        if "exc" not in im["scandoc"] and im["scandoc"] != mo["scandoc"]:
            ctx.disagreement("scan_for_import_issues(parse_docstrings=True)", rec, im["scandoc"], mo["scandoc"])
    for bi, b in enumerate(im["blocks"]):
        mb = blocks.get("orig", {}).get(bi)
        if mb is None:
            continue
        if b["set"] != as_pairs(mb["set"]):
            ctx.disagreement("ImportSet(block, ignore_shadowed=True).imports", rec, b["set"], mb["set"])
        if "text" in im["reformat"] and bi < len(im["reformat"]["blocks"]):
            if im["reformat"]["blocks"][bi]["imports"] != as_pairs(mb["reformat"]):
                ctx.disagreement("reformat_import_statements: block imports in printed order", rec,
                                 im["reformat"]["blocks"][bi]["imports"], mb["reformat"])
    for key in ("reformat", "tidy"):
        if "exc" in im[key]:
            ctx.bump("%s_raised:%s" % (key, im[key]["exc"]))
            ctx.disagreement("%s raised on a compilable module" % key, rec, im[key], None)
    if have_ref and "text" in im["tidy"]:
        ctx.bump("tidy_closed")
        want = [as_pairs(blocks["ref"][bi]["tidy"]) for bi in sorted(blocks.get("ref", {}))]
        want = [w for w in want if w]
        got = [b["imports"] for b in im["tidy"]["blocks"]]
        if want != got:
            ctx.disagreement("fix_unused_and_missing_imports: imports of the output blocks", rec, got, want)
    # ---- the command line at every log level (no model: the outputs are compared with each other, and the default one
    # with the in-process result block by block)
    if "cli" in im:
        ctx.bump("cli_cases")
        ref = im["cli"]["default"]
        for name, _, _ in CLI_VARIANTS[1:]:
            if im["cli"][name] != ref:
                ctx.violation("tidy-imports --print: same output at every log level (%s)" % name, rec,
                              {"variant": name, "default": ref, "got": im["cli"][name]})
            else:
                ctx.bump("cli_same")
        if "text" in im["tidy"] and ref != [0, im["tidy"]["text"]]:
            ctx.disagreement("bin/tidy-imports --print (default level, the case's formatting options) = in-process tidy",
                             rec, ref, im["tidy"]["text"])
    # ---- oracle
    base = im["run"]["orig"]
    nontriv = bool(im["scan"].get("unused")) or any(len(b["imports"]) > 1 for b in im["blocks"])
    ctx.bump("original_runs_to_end" if base["exc"] is None else "original_raises")
    fid = None
    for key in ("reformat", "tidy"):
        if key not in im["run"]:
            continue
        rem = removed_names(im["blocks"], im[key]["blocks"])
        ood = []
        diff = compare_runs(key, base, im["run"][key], rem, plain_paths(case["prog"]), otherwise_bound(case["prog"]), ood)
        for why in ood:
            ctx.bump("out_of_domain:" + why)
        if diff is not None:
            fid = fid or classify(case)
            if "docstring" in diff and docstring_promotion(case["prog"]):
                fid = "docpromo"
            if fid:
                ctx.known_hit(fid, "%s changes behaviour (%s)" % (key, KNOWN_WHAT[fid]))
                ctx.bump("known:" + fid)
            else:
                ctx.violation("behaviour_preserved(%s)" % key, rec, {"diff": diff, "rewritten": im[key]["text"]})
        else:
            ctx.bump(key + "_same")
    ctx.count({"src": src}, nontriv)
    if nontriv:
        ctx.sample({"src": src, "tidy": im["tidy"].get("text"), "unused": im["scan"].get("unused")})


def run_witnesses(ctx):
    cases, meta = [], []
    for e in ctx.open_findings():
        w = e.get("witness") or {}
        for pw in w.get("progs", []):
            cases.append({"kind": "exec", "i": -1 - len(cases), "prog": pw["prog"], "ns": w.get("ns", [[G.REG, G.DEC]])})
            meta.append((e["id"], pw))
    if not cases:
        return
    prepared = [c05.prepare(c) for c in cases]
    impl = cm.run_impl("c02", "impl_case", [{"src": p[0], "ns": c["ns"]} for c, p in zip(cases, prepared)], jobs=1)
    for (fid, pw), c, p, im in zip(meta, cases, prepared, impl):
        assert p[0] == pw["src"], (p[0], pw["src"])
        ctx.bump("witness_replayed")
        key = pw["tool"]
        rem = removed_names(im["blocks"], im[key]["blocks"])
        diff = compare_runs(key, im["run"]["orig"], im["run"][key], rem, plain_paths(c["prog"]), otherwise_bound(c["prog"]))
        if diff is not None:
            ctx.known_hit(fid, "%s changes behaviour (%s); witness %r: %s" % (key, KNOWN_WHAT.get(fid, fid), pw["src"], json.dumps(diff)[:160]))
        else:
            ctx.bump("witness_no_longer_reproduces:" + fid)


def run(ctx):
    cm.check_anchors(ctx, ANCHORS)
    run_witnesses(ctx)
    n = (700 if ctx.quick else 12000) * ctx.scale
    ctx.coverage["rule"] = (
        "executable programs from one seeded PRNG: 1-3 segments of a top-level import block (1-4 statements: plain / dotted / "
        "aliased / from imports over a 10-name pool, so names collide) followed by statements of the C05 executed stream "
        "(defs, lambdas, classes, comprehensions, loops; every function runs after the module) and attribute reads; "
        "2 programs in 10 are instead generated inside fragment 2 / 3 of the unused side (functions and lambdas, comprehensions; imports "
        "`as` fresh names at top-level positions; docstrings at module level and in def bodies whose doctest examples are load-only "
        "expression statements, some with invalid escape sequences); dfragment:stageK counts the programs inside the fragment of "
        "C02_unused_sound_doc_stageK / C02_tidy_fix_preserves_trace_stageK (ufragment K >= 2 and Fragment.dx_docs), each checked "
        "against that statement (finder_doc vs pysem_doc) by vm_compute; "
        "the counters ufragment:stage1 / ufragment:stage2 / ufragment:outside are the MEASURED "
        "number of programs inside Fragment.u1_block / u2_block+imports_once / neither - only those inside are covered by "
        "C02_unused_sound_* and the end-to-end theorems, and each of them is also checked against the statement by vm_compute; "
        "non-trivial = an import is reported unused or a block holds more than one import; distinct by hash of the source")
    ctx.assumptions += [
        "the tracing import universe (every import succeeds, from a import b and import a.b as b yield the same object) stands for the real one",
        "'submodule no longer imported' is claimed only for an attribute chain rooted at the package's own name (the root binding of a plain `import pkg.sub` of the original, that name bound by nothing else); a submodule reached through another binding of the package (alias, from-import, re-assignment) relies on the loading side effect of an import whose bound name is unread - out of domain, counted as out_of_domain:*",
        "behaviour = unbound globals, the log of operations on provenance-tagged values, final globals by tag, docstring, exception",
        "tidy correspondence is closed only when re-rendering the spliced term reproduces pyflyby's reformatted text exactly (counted)",
    ]
    ctx.notes["trusted_base"] = ["CPython 3.12 executing original and rewritten module", "Imports/ImportSet.v (C11 model) for the block set and statement order"]
    cases = cm.load_corpus("C02") + [make_case(ctx.seed, i) for i in range(n)]
    step = 1500
    for k in range(0, len(cases), step):
        run_cases(ctx, cases[k:k + step])


def replay(payload):
    case = payload.get("case") or payload["disagreements"][0]["case"]
    c = {"kind": "exec", "i": case.get("i", 0), "prog": case["prog"], "ns": case["ns"], "cli": case.get("cli")}
    ctx = cm.Ctx("C02", "replay", 0)
    run_cases(ctx, [c])
    print(case.get("src", ""))
    print(json.dumps({"oracle_violations": [{"name": v["name"], "detail": v["detail"]} for v in ctx.violations],
                      "known_findings": ctx.known_hits,
                      "disagreements": [{"name": d["name"], "impl": d["impl"], "model": d["model"]} for d in ctx.disagreements]},
                     indent=1, default=str))
    return 0

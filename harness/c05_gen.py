"""C05 / M7 - terms of the mini-language (coq/theories/Scope/PySyntax.v), a generator, the renderer to
Python source and the printer to Gallina.

A term is JSON: strings are names.
 expr   ["load", n, [attrs]] | ["op", kind, [es]] | ["attr", e, [attrs]] | ["lambda", [ps], [defaults], body]
        | ["comp", kind, [gens], [elts]]            gen = [iter, target, [ifs]]
 target ["n", n] | ["a", n, [attrs]] | ["t", [targets]]
 param  [n, ann|None]
 params {"posonly": [param], "args": [param], "vararg": param|None, "kwonly": [param], "kwarg": param|None,
         "defaults": [expr], "kw_defaults": [expr|None]}
 stmt   ["expr", e] | ["assign", [targets], e] | ["aug", n, [attrs], e] | ["all", [n]]
        | ["import", [[dotted, as|None]]] | ["from", dotted, [[n, as|None]]]
        | ["def", n, [deco], params, ret|None, body] | ["class", n, [bases], [deco], [kws], body]
        | ["for", target, e, body, orelse] | ["while", e, body, orelse] | ["if", e, body, orelse]
        | ["with", [[e, target|None]], body] | ["try", body, [[ty|None, n|None, body]], orelse, final] | ["pass"]
        | ["doc", [example stmt], [brace names]]   a docstring statement with doctest examples (expr / assign statements)
 params may carry "async": True (rendered `async def`; the analysis treats it as a def)
"""

RESERVED = ["*", "__all__", "__class__", "__future__"]      # ids 0..3 (PySyntax.v)
REG, DEC = "reg_", "dec_"                                   # harness helpers living in the initial namespace

NAMES = ['a', 'b', 'c', 'd', 'e', 'f', 'g', 'm', 'n', 'pkg']
ATTRS = ['x', 'y', 'sub', 'a']
MODS = [['pkg'], ['m'], ['pkg', 'sub'], ['a', 'b'], ['n']]
BUILTIN_POOL = ['int', 'len']


# ------------------------------------------------------------------------------------------------
# generator

class Gen:
    def __init__(self, r, execd, maxdepth=3, classes=True, funcs=True, comps=True, mods=None):
        self.mods = mods or MODS
        self.r, self.execd, self.maxdepth = r, execd, maxdepth
        self.classes, self.funcs, self.comps = classes, funcs, comps

    def name(self):
        r = self.r
        if not self.execd and r.random() < .04:
            return r.choice(BUILTIN_POOL + ['__class__'])
        if r.random() < .02:
            return r.choice(BUILTIN_POOL)
        return r.choice(NAMES)

    def load(self, safe=False):
        r = self.r
        nm = r.choice(NAMES) if (safe and self.execd) else self.name()
        return ["load", nm, [r.choice(ATTRS) for _ in range(r.choice([0, 0, 1, 2]))]]

    def params_lambda(self):
        r = self.r
        ps = []
        for _ in range(r.randint(0, 3)):
            p = r.choice(NAMES)
            if p not in ps:
                ps.append(p)
        nd = r.choice([0, 0, 1, 2])
        nd = min(nd, len(ps))
        return ps, [self.vexp(2) for _ in range(nd)]

    def vexp(self, d=0):
        """an expression whose value is the inert object V whenever every name denotes V: it can be
        called, iterated (two items), entered, subscripted, hashed, unpacked"""
        r = self.r
        k = r.random()
        if d > 2 or k < .55:
            return self.load(True)
        if k < .75:
            return ["op", "call", [self.load(True)] + [self.expr(d + 1) for _ in range(r.randint(0, 2))]]
        if k < .85:
            return ["op", "add", [self.load(True), self.expr(d + 1)]]
        if k < .90 and self.funcs:
            return self.lam(d, True)
        if k < .95:
            return ["op", "sub", [self.load(True), self.expr(d + 1)]]
        # attribute access / call on a call result: (f(x)).a.b, f(x)(y)
        base = ["op", "call", [self.load(True)] + [self.expr(d + 1) for _ in range(r.randint(0, 1))]]
        if r.random() < .7:
            return ["attr", base, [r.choice(ATTRS) for _ in range(r.choice([1, 1, 2]))]]
        return ["op", "call", [base, self.expr(d + 1)]]

    def lam(self, d, wrap):
        ps, ds = self.params_lambda()
        lam = ["lambda", ps, ds, self.expr(d + 1)]
        if wrap:
            return ["op", "call", [["load", REG, []], lam]]
        return lam

    def expr(self, d=0):
        r = self.r
        k = r.random()
        if d > 2:
            return self.load()
        if k < .6:
            return self.vexp(d)
        if k < .66 and self.funcs:
            return self.lam(d, self.execd or r.random() < .5)
        if k < .80 and self.comps:
            return self.comp(d)
        if k < .86:
            return self.on_base(d)
        if k < .97:
            return ["op", r.choice(["tuple", "list"]), [self.expr(d + 1) for _ in range(r.randint(1, 2))]]
        return ["op", "const", []]

    def on_base(self, d):
        """attribute access, method call or subscript whose base is a comprehension or a lambda (the names are
        real attributes of list / dict / set / function objects, so the executed stream stays exception-free)"""
        r = self.r
        k = r.random()
        if k < .3 and self.funcs:
            # (lambda q: q.x).__name__ : a bare lambda that is never called may only read its own parameters
            ps = []
            for _ in range(r.randint(1, 2)):
                q = r.choice(NAMES)
                if q not in ps:
                    ps.append(q)
            body = ["load", r.choice(ps), [r.choice(ATTRS)] if r.random() < .5 else []]
            if r.random() < .3:
                body = ["op", "add", [body, ["load", r.choice(ps), []]]]
            lam = ["lambda", ps, [], body]
            if not self.execd and r.random() < .5:
                lam = ["lambda", ps, [], self.expr(d + 1)]
            return ["attr", lam, [r.choice(["__name__", "__qualname__"])]]
        if not self.comps:
            return self.load()
        kind = r.choice(["list", "list", "dict", "set"])
        c = self.comp(d, kind)
        if kind == "list":
            m = r.choice([("count", 1), ("copy", 0), ("sub", None)])
        elif kind == "dict":
            m = r.choice([("get", 1), ("items", 0), ("keys", 0), ("copy", 0)])
        else:
            m = r.choice([("copy", 0), ("union", 0)])
        if m[1] is None:
            return ["op", "sub", [c, ["op", "const0", []]]]          # [ ... ][0]
        call = ["op", "call", [["attr", c, [m[0]]]] + [self.vexp(d + 1) for _ in range(m[1])]]
        return call

    def comp(self, d, kind=None):
        r = self.r
        kind = kind or r.choice(["list", "list", "dict", "gen", "set"])
        gens = []
        for gi in range(r.choice([1, 1, 1, 2])):
            tgt = self.target(comp=True)
            gens.append([self.vexp(d + 1), tgt, [self.expr(d + 1)] if r.random() < .3 else []])
        if kind == "dict":
            elts = [self.vexp(d + 1), self.expr(d + 1)]
        elif kind == "set":
            elts = [self.vexp(d + 1)]
        else:
            elts = [self.expr(d + 1)]
        c = ["comp", kind, gens, elts]
        if kind == "gen":
            return ["op", "starlist", [c]]          # [*(... for ...)] : consumes the generator
        return c

    def target(self, comp=False):
        r = self.r
        k = r.random()
        if k < .7:
            return ["n", r.choice(NAMES)]
        if k < .85:
            return ["t", [["n", r.choice(NAMES)], ["n", r.choice(NAMES)]]]
        if comp:
            return ["n", r.choice(NAMES)]
        return ["a", r.choice(NAMES), [r.choice(ATTRS) for _ in range(r.choice([1, 1, 2]))]]

    def imp(self):
        r = self.r
        mod = r.choice(self.mods)
        k = r.random()
        if not self.execd and k < .03:
            return ["from", mod, [["*", None]]]
        if k < .4:
            items = [[mod, None]]
            if r.random() < .1:
                items.append([r.choice(self.mods), None])
            return ["import", items]
        if k < .55:
            return ["import", [[mod, r.choice(NAMES)]]]
        if k < .85:
            items = [[r.choice(NAMES), None]]
            if r.random() < .1:
                items.append([r.choice(NAMES), r.choice(NAMES)])
            return ["from", mod, items]
        return ["from", mod, [[r.choice(NAMES), r.choice(NAMES)]]]

    def dparams(self):
        r = self.r
        used = set()

        def fresh(k):
            out = []
            for _ in range(k):
                p = r.choice(NAMES)
                if p in used:
                    continue
                used.add(p)
                out.append([p, self.expr(2) if r.random() < .2 else None])
            return out
        posonly = fresh(r.choice([0, 0, 0, 1, 1]))
        args = fresh(r.randint(0, 2))
        vararg = (fresh(1) or [None])[0] if r.random() < .12 else None
        kwonly = fresh(r.choice([0, 0, 1, 1, 2]))
        kwarg = (fresh(1) or [None])[0] if r.random() < .12 else None
        if self.execd:
            # *va is an (empty) tuple and **kwa an (empty) dict, not the inert value: never read them
            if vararg:
                vararg[0] = "va"
            if kwarg:
                kwarg[0] = "kwa"
        npos = len(posonly) + len(args)
        nd = min(npos, r.choice([0, 0, 1, 2]))
        pos = [q[0] for q in posonly + args]

        def dflt(earlier):
            # a default is evaluated in the enclosing scope: let it mention an earlier parameter
            if earlier and r.random() < .4:
                return ["load", r.choice(earlier), [r.choice(ATTRS)] if r.random() < .3 else []]
            return self.vexp(2)
        defaults = [dflt(pos[:npos - nd + i]) for i in range(nd)]
        kwd = []
        for i, q in enumerate(kwonly):
            kwd.append(dflt(pos + [z[0] for z in kwonly[:i]]) if r.random() < .6 else None)
        return {"posonly": posonly, "args": args, "vararg": vararg, "kwonly": kwonly, "kwarg": kwarg,
                "defaults": defaults, "kw_defaults": kwd}

    def decos(self):
        r = self.r
        if r.random() < .2:
            return [["op", "call", [["load", DEC, []], self.expr(2)]]]
        return []

    def block(self, d):
        out = []
        for _ in range(self.r.randint(1, 3 if d else 7)):
            out += self.stmt(d)
        return out

    def stmt(self, d):
        r = self.r
        k = r.random()
        if d >= self.maxdepth:
            k *= .5
        if k < .2:
            return [["expr", self.expr()]]
        if k < .38:
            ts = [self.target()]
            if r.random() < .08:
                ts.append(self.target())
            return [["assign", ts, self.vexp() if self.execd else self.expr()]]
        if k < .53:
            return [self.imp()]
        if k < .56:
            if r.random() < .7:
                return [["aug", r.choice(NAMES), [], self.expr()]]
            return [["aug", r.choice(NAMES), [r.choice(ATTRS)], self.expr()]]
        if k < .68:
            if not self.funcs:
                return [["expr", self.expr()]]
            nm = r.choice(NAMES)
            ps = self.dparams()
            ret = self.expr(2) if r.random() < .15 else None
            s = ["def", nm, self.decos(), ps, ret, self.block(d + 1)]
            if self.execd or r.random() < .5:
                # f = reg_(f): the function runs after the module, the name now denotes an inert value
                return [s, ["assign", [["n", nm]], ["op", "call", [["load", REG, []], ["load", nm, []]]]]]
            return [s]
        if k < .77:
            if not self.classes:
                return [["expr", self.expr()]]
            nm = r.choice(NAMES)
            bases = [self.load()] if r.random() < .2 else []
            kws = [self.expr(2)] if r.random() < .1 else []      # the executed stream's __build_class__ drops keywords
            s = ["class", nm, bases, self.decos(), kws, self.block(d + 1)]
            if self.execd:
                return [s, ["assign", [["n", nm]], ["op", "call", [["load", REG, []], ["load", nm, []]]]]]
            return [s]
        if k < .83:
            orelse = self.block(d + 1) if r.random() < (.15 if self.execd else .3) else []
            return [["for", self.target(), self.vexp(), self.block(d + 1), orelse]]
        if k < .88:
            orelse = self.block(d + 1) if (not self.execd and r.random() < .4) else []
            return [["if", self.vexp(), self.block(d + 1), orelse]]
        if k < .91:
            orelse = self.block(d + 1) if (not self.execd and r.random() < .3) else []
            return [["while", self.vexp(), self.block(d + 1), orelse]]
        if k < .95:
            items = [[self.vexp(), self.target() if r.random() < .7 else None]]
            if r.random() < .15:
                items.append([self.vexp(), self.target() if r.random() < .7 else None])
            return [["with", items, self.block(d + 1)]]
        if k < .985:
            handlers = []
            orelse = []
            final = self.block(d + 1)
            if not self.execd:
                for _ in range(r.choice([0, 1, 1, 2])):
                    handlers.append([self.load() if r.random() < .8 else None,
                                     r.choice(NAMES) if r.random() < .6 else None, self.block(d + 1)])
                if handlers and r.random() < .3:
                    orelse = self.block(d + 1)
                if handlers and r.random() < .5:
                    final = []
            return [["try", self.block(d + 1), handlers, orelse, final]]
        if not self.execd and r.random() < .5:
            return [["all", [r.choice(NAMES) for _ in range(r.randint(0, 2))]]]
        return [["pass"]]


def gen_program(r, execd, **kw):
    g = Gen(r, execd, **kw)
    return g.block(0)


# ------------------------------------------------------------------------------------------------
# names

class _Recorder(dict):
    def __missing__(self, k):
        self[k] = 0
        return 0


def names_of(prog):
    """every name (or dotted component) of the term: one rendering pass with a recording id table"""
    rec = _Recorder()
    Render(rec).block(prog, 0)
    return set(rec)


RESERVED_IDS = {"": 0, "*": 500, "__all__": 1000, "__class__": 2000, "__future__": 3000}


def name_ids(prog, extra=()):
    """ids monotone in Python string order; the four reserved spellings have fixed ids (PySyntax.v), every
    other name gets an id in the gap where it sorts"""
    acc = set(extra) | names_of(prog)
    acc -= set(RESERVED_IDS)
    ids = dict(RESERVED_IDS)
    bounds = sorted(RESERVED_IDS.items(), key=lambda kv: kv[1])
    for n in sorted(acc):
        assert n > "*", "name %r sorts before the star" % n
    for k, (rn, rid) in enumerate(bounds):
        hi = bounds[k + 1][0] if k + 1 < len(bounds) else None
        grp = sorted(n for n in acc if n > rn and (hi is None or n < hi))
        assert len(grp) < 990
        for j, n in enumerate(grp):
            ids[n] = rid + 1 + j
    return ids


# ------------------------------------------------------------------------------------------------
# renderer: term -> Python source, plus the Gallina term (line numbers are fixed by the rendering)

class Render:
    def __init__(self, ids):
        self.ids = ids
        self.lines = []
        self.spans = {}          # id(stmt) -> (header line, last line)

    # --- Gallina atoms
    def N(self, n):
        return "%d%%N" % self.ids[n]

    def Ns(self, l):
        return "[" + "; ".join(self.N(x) for x in l) + "]"

    @staticmethod
    def L(items):
        return "[" + "; ".join(items) + "]"

    @staticmethod
    def O(x):
        return "None" if x is None else "(Some %s)" % x

    # --- expressions: returns (python, gallina)
    def expr(self, e):
        t = e[0]
        if t == "load":
            return ".".join([e[1]] + e[2]), "(ELoad %s %s)" % (self.N(e[1]), self.Ns(e[2]))
        if t == "op":
            kind, es = e[1], e[2]
            ps = [self.expr(x) for x in es]
            py = [p for p, _ in ps]
            g = "(EOp %s)" % self.L([c for _, c in ps])
            if kind == "const":
                return "1", g
            if kind == "const0":
                return "0", g
            if kind == "esc":                 # a string literal with an invalid escape sequence (SyntaxWarning material)
                return '"\\D"', g
            if kind == "doc":
                return '"""doc"""', g
            if kind == "call":
                return "%s(%s)" % (self.atom(es[0], py[0]), ", ".join(py[1:])), g
            if kind == "add":
                return "(%s + %s)" % (py[0], py[1]), g
            if kind == "sub":
                return "%s[%s]" % (self.atom(es[0], py[0]), py[1]), g
            if kind == "tuple":
                return "(%s,)" % ", ".join(py), g
            if kind == "list":
                return "[%s]" % ", ".join(py), g
            if kind == "starlist":
                return "[*%s]" % py[0], g
            raise ValueError(kind)
        if t == "attr":
            bp, bg = self.expr(e[1])
            return ".".join([self.atom(e[1], bp)] + e[2]), "(EAttr %s %s)" % (bg, self.Ns(e[2]))
        if t == "lambda":
            ps, ds, body = e[1], e[2], e[3]
            dps = [self.expr(x) for x in ds]
            k = len(ps) - len(ds)
            parts = [p if i < k else "%s=%s" % (p, dps[i - k][0]) for i, p in enumerate(ps)]
            bp, bg = self.expr(body)
            return ("(lambda %s: %s)" % (", ".join(parts), bp),
                    "(ELambda %s %s %s)" % (self.Ns(ps), self.L([c for _, c in dps]), bg))
        if t == "comp":
            kind, gens, elts = e[1], e[2], e[3]
            gp, gg = [], []
            for it, tg, ifs in gens:
                ip, ig = self.expr(it)
                tp, tgg = self.target(tg)
                fs = [self.expr(x) for x in ifs]
                gp.append("for %s in %s%s" % (tp, ip, "".join(" if " + p for p, _ in fs)))
                gg.append("(Gen %s %s %s)" % (ig, tgg, self.L([c for _, c in fs])))
            es = [self.expr(x) for x in elts]
            g = "(EComp %s %s)" % (self.L(gg), self.L([c for _, c in es]))
            tail = " ".join(gp)
            if kind == "list":
                return "[%s %s]" % (es[0][0], tail), g
            if kind == "set":
                return "{%s %s}" % (es[0][0], tail), g
            if kind == "gen":
                return "(%s %s)" % (es[0][0], tail), g
            if kind == "dict":
                return "{%s: %s %s}" % (es[0][0], es[1][0], tail), g
            raise ValueError(kind)
        raise ValueError(t)

    @staticmethod
    def atom(e, py):
        return py if e[0] in ("load", "attr") else "(%s)" % py

    def target(self, t):
        if t[0] == "n":
            return t[1], "(TName %s)" % self.N(t[1])
        if t[0] == "a":
            return ".".join([t[1]] + t[2]), "(TAttr %s %s)" % (self.N(t[1]), self.Ns(t[2]))
        ps = [self.target(x) for x in t[1]]
        return "(%s,)" % ", ".join(p for p, _ in ps), "(TTuple %s)" % self.L([c for _, c in ps])

    def param(self, p):
        n, ann = p
        if ann is None:
            return n, "(%s, None)" % self.N(n)
        ap, ag = self.expr(ann)
        return "%s: %s" % (n, ap), "(%s, Some %s)" % (self.N(n), ag)

    def params(self, P):
        po = [self.param(p) for p in P["posonly"]]
        ar = [self.param(p) for p in P["args"]]
        va = self.param(P["vararg"]) if P["vararg"] else None
        ko = [self.param(p) for p in P["kwonly"]]
        kw = self.param(P["kwarg"]) if P["kwarg"] else None
        ds = [self.expr(x) for x in P["defaults"]]
        kds = [self.expr(x) if x is not None else None for x in P["kw_defaults"]]
        pos = [p for p, _ in po + ar]
        k = len(pos) - len(ds)
        pos = [p if i < k else "%s=%s" % (p, ds[i - k][0]) for i, p in enumerate(pos)]
        out = pos[:len(po)]
        if po:
            out.append("/")
        out += pos[len(po):]
        if va:
            out.append("*" + va[0])
        elif ko:
            out.append("*")
        for (p, _), kd in zip(ko, kds):
            out.append(p if kd is None else "%s=%s" % (p, kd[0]))
        if kw:
            out.append("**" + kw[0])
        g = "(Params %s %s %s %s %s %s %s)" % (
            self.L([c for _, c in po]), self.L([c for _, c in ar]), self.O(va[1] if va else None),
            self.L([c for _, c in ko]), self.O(kw[1] if kw else None), self.L([c for _, c in ds]),
            self.L([self.O(kd[1] if kd else None) for kd in kds]))
        return ", ".join(out), g

    # --- statements: append lines, return gallina
    prefix = ""

    def emit(self, ind, text):
        self.lines.append("    " * ind + self.prefix + text)
        return len(self.lines)

    def block(self, body, ind):
        if not body:
            return "[]"
        return self.L([g for g in (self.stmt(s, ind) for s in body) if g is not None])

    def suite(self, body, ind, extra=None):
        """a non-empty indented suite; [extra] = a trailing line that is not part of the term"""
        g = self.L([g for g in (self.stmt(s, ind) for s in body) if g is not None])
        if extra:
            self.emit(ind, extra)
        return g

    def decos(self, ds, ind):
        out = []
        for d in ds:
            p, g = self.expr(d)
            ln = self.emit(ind, "@" + p)
            out.append("(%d, %s)" % (ln, g))
        return self.L(out)

    def stmt(self, s, ind):
        first = len(self.lines) + 1
        g = self.stmt1(s, ind)
        hdr = first + (len(s[2]) if s[0] == "def" else len(s[3]) if s[0] == "class" else 0)
        self.spans[id(s)] = (hdr, len(self.lines))
        return g

    def stmt1(self, s, ind):
        t = s[0]
        if t == "blank":                      # layout only: no statement in the term
            self.lines.append("")
            return None
        if t == "comment":
            self.emit(ind, "# " + s[1])
            return None
        if t == "expr":
            p, g = self.expr(s[1])
            return "(SExpr %d %s)" % (self.emit(ind, p), g)
        if t == "assign":
            ts = [self.target(x) for x in s[1]]
            p, g = self.expr(s[2])
            ln = self.emit(ind, " = ".join([tp for tp, _ in ts] + [p]))
            return "(SAssign %d %s %s)" % (ln, self.L([c for _, c in ts]), g)
        if t == "aug":
            p, g = self.expr(s[3])
            ln = self.emit(ind, "%s += %s" % (".".join([s[1]] + s[2]), p))
            return "(SAugAssign %d %s %s %s)" % (ln, self.N(s[1]), self.Ns(s[2]), g)
        if t == "all":
            ln = self.emit(ind, "__all__ = [%s]" % ", ".join(repr(x) for x in s[1]))
            return "(SAllAssign %d %s)" % (ln, self.Ns(s[1]))
        if t == "import":
            ln = self.emit(ind, "import " + ", ".join(".".join(d) + (" as " + a if a else "") for d, a in s[1]))
            return "(SImport %d %s)" % (ln, self.L(["(%s, %s)" % (self.Ns(d), self.O(self.N(a) if a else None)) for d, a in s[1]]))
        if t == "from":
            lvl = 0
            while lvl < len(s[1]) and s[1][lvl] == "":
                lvl += 1
            ln = self.emit(ind, "from %s import %s" % ("." * lvl + ".".join(s[1][lvl:]), ", ".join(n + (" as " + a if a else "") for n, a in s[2])))
            return "(SImportFrom %d %s %s)" % (ln, self.Ns(s[1]), self.L(["(%s, %s)" % (self.N(n), self.O(self.N(a) if a else None)) for n, a in s[2]]))
        if t == "def":
            _, nm, ds, P, ret, body = s
            dg = self.decos(ds, ind)
            pp, pg = self.params(P)
            rp = self.expr(ret) if ret is not None else None
            ln = self.emit(ind, "%sdef %s(%s)%s:" % ("async " if P.get("async") else "", nm, pp, (" -> " + rp[0]) if rp else ""))
            bg = self.suite(body, ind + 1)
            return "(SDef %d %s %s %s %s %s)" % (ln, self.N(nm), dg, pg, self.O(rp[1] if rp else None), bg)
        if t == "class":
            _, nm, bases, ds, kws, body = s
            dg = self.decos(ds, ind)
            bs = [self.expr(x) for x in bases]
            ks = [self.expr(x) for x in kws]
            inside = [p for p, _ in bs] + ["kw%d=%s" % (i, p) for i, (p, _) in enumerate(ks)]
            ln = self.emit(ind, "class %s%s:" % (nm, "(%s)" % ", ".join(inside) if inside else ""))
            bg = self.suite(body, ind + 1)
            return "(SClass %d %s %s %s %s %s)" % (ln, self.N(nm), self.L([c for _, c in bs]), dg, self.L([c for _, c in ks]), bg)
        if t == "for":
            _, tg, it, body, orelse = s
            tp, tgg = self.target(tg)
            ip, ig = self.expr(it)
            ln = self.emit(ind, "for %s in %s:" % (tp, ip))
            bg = self.suite(body, ind + 1)
            og = "[]"
            if orelse:
                self.emit(ind, "else:")
                og = self.suite(orelse, ind + 1)
            return "(SFor %d %s %s %s %s)" % (ln, tgg, ig, bg, og)
        if t in ("while", "if"):
            _, test, body, orelse = s
            p, g = self.expr(test)
            ln = self.emit(ind, "%s %s:" % (t, p))
            bg = self.suite(body, ind + 1, extra="break" if t == "while" else None)
            og = "[]"
            if orelse:
                self.emit(ind, "else:")
                og = self.suite(orelse, ind + 1)
            return "(%s %d %s %s %s)" % ("SWhile" if t == "while" else "SIf", ln, g, bg, og)
        if t == "with":
            _, items, body = s
            its = []
            for e, tg in items:
                ep, eg = self.expr(e)
                tt = self.target(tg) if tg is not None else None
                its.append((ep + (" as " + tt[0] if tt else ""), "(%s, %s)" % (eg, self.O(tt[1] if tt else None))))
            ln = self.emit(ind, "with %s:" % ", ".join(p for p, _ in its))
            bg = self.suite(body, ind + 1)
            return "(SWith %d %s %s)" % (ln, self.L([c for _, c in its]), bg)
        if t == "try":
            _, body, handlers, orelse, final = s
            ln = self.emit(ind, "try:")
            bg = self.suite(body, ind + 1)
            hg = []
            for ty, nm, hb in handlers:
                tp = self.expr(ty) if ty is not None else None
                if tp is None:
                    nm = None
                hl = self.emit(ind, "except%s%s:" % ((" " + tp[0]) if tp else "", (" as " + nm) if nm else ""))
                hbg = self.suite(hb, ind + 1)
                hg.append("(Handler %d %s %s %s)" % (hl, self.O(tp[1] if tp else None), self.O(self.N(nm) if nm else None), hbg))
            og = "[]"
            if orelse:
                self.emit(ind, "else:")
                og = self.suite(orelse, ind + 1)
            fg = "[]"
            if final:
                self.emit(ind, "finally:")
                fg = self.suite(final, ind + 1)
            return "(STry %d %s %s %s %s)" % (ln, bg, self.L(hg), og, fg)
        if t == "pass":
            return "(SPass %d)" % self.emit(ind, "pass")
        if t == "doc":
            _, examples, braces = s
            ln = self.emit(ind, '"""doc ' + " ".join("{%s}" % b for b in braces))
            exs = []
            for x in examples:
                if x[0] == "bad":             # an example that does not compile: pyflyby skips it (no statement)
                    self.emit(ind, ">>> " + x[1])
                    continue
                self.prefix = ">>> "          # a one-line statement: expr, assign, import, from
                try:
                    exs.append(self.stmt1(x, ind))
                finally:
                    self.prefix = ""
            self.emit(ind, '"""')
            return "(SDoc %d %s %s)" % (ln, self.L(exs), self.Ns(braces))
        raise ValueError(t)


def render(prog, ids):
    """-> (python source, Gallina term of type program)"""
    r = Render(ids)
    g = r.block(prog, 0)
    return "\n".join(r.lines) + "\n", g, r.spans


def normalise(prog):
    """repair what the generator may produce but Python's grammar rejects (handler `as` without type is
    dropped by the renderer; a try needs a handler or a finally)"""
    def fix(s):
        if s[0] == "try":
            if not s[2] and not s[4]:
                s[4] = [["pass"]]
            for k, h in enumerate(s[2]):
                if h[0] is None and k < len(s[2]) - 1:
                    h[0] = ["load", "e", []]          # a bare except must be the last handler
                if h[0] is None:
                    h[1] = None
                for x in h[2]:
                    fix(x)
            for b in (s[1], s[3], s[4]):
                for x in b:
                    fix(x)
        elif s[0] in ("def", "class"):
            for x in s[5]:
                fix(x)
        elif s[0] == "for":
            for x in s[3] + s[4]:
                fix(x)
        elif s[0] in ("while", "if"):
            for x in s[2] + s[3]:
                fix(x)
        elif s[0] == "with":
            for x in s[2]:
                fix(x)
    for s in prog:
        fix(s)
    return prog

"""C10 - statement splitting is a lossless, syntax-aligned partition.

Correspondence: PythonBlock(text, startpos).statements (piece texts, start positions, owning node)
against Text/Split.v `statements`, fed with CPython's top-level node list computed independently
here (character columns, "@" of the first decorator from the tokenizer, absolute last line).
Oracle (independent of model and of pyflyby's splitter): concatenation equals the input; one piece
per top-level node, re-parsing alone to the same ast.dump; node-less pieces hold only comments and
blanks; every node piece reports the position obtained by counting characters; string_literals()
are reported at string-token starts."""
import ast
import io
import json
import os
import textwrap
import tokenize
import warnings

from . import common as cm
from . import c10_gen as G

REQ = ["Text.FilePos", "Text.FileText", "Text.Split", "Text.StrLits", "Text.Wire"]
ANCHORS = ["pyflyby._file:FilePos.__add__", "pyflyby._file:FileText.__new__", "pyflyby._file:FileText.alter", "pyflyby._file:FileText.endpos",
           "pyflyby._file:FileText._lineno_to_index", "pyflyby._file:FileText._colno_to_index",
           "pyflyby._file:FileText.__getitem__", "pyflyby._file:FileText.concatenate",
           "pyflyby._parse:_is_comment_or_blank", "pyflyby._parse:_split_code_lines",
           "pyflyby._parse:PythonBlock.statements", "pyflyby._parse:_annotate_ast_startpos",
           "pyflyby._parse:_char_col_offset", "pyflyby._parse:_iter_child_nodes_in_order_internal_1",
           "pyflyby._parse:_parse_ast_nodes"]
MAX_MODEL_CHARS = 6000          # larger corpus files go through the oracle only
MAX_MODEL_LINES = 400

warnings.simplefilter("ignore", SyntaxWarning)


# ---------------------------------------------------------------------------------------------
# cases

WITNESSES = [
    ("F1", 'x = "é"; y = 1\n'),
    ("F1b", 'x = "日本語"; import os, sys\ny = 2\n'),
    ("F3", 'x = """abc\n# foo """\ny = 2\n'),
    ("F3eof", 'x = """abc\n#foo"""'),
    ("F3blank", 'x = """abc\n\n# foo """\n# real\n\ny = 2\n'),
    ("F32", "x=1\nprint(f'{x=}')\n"),
    ("F33a", "class S[T](P): pass\n"),
    ("F33b", "def f[T](x: T): pass\n"),
    ("F35a", "@ dec\ndef f(): pass\n"),
    ("F35b", "x=1\n@(\ndec)\ndef f(): pass\n"),
    ("F35c", "x=1\n@\\\ndec\nclass C: pass\n"),
    ("F36", "if y:\n\tx = 1 \\\n\t"),
    ("F37", "import a\n    # \\\n# c\n    # \\\n\x0c"),
    ("F3tail", "# type: ignore\n\n\'\'\'x\n  # z\n\n# tail \'\'\';import m;os = 1 \\\n \t \n\n"),
    ("F40", "x = 1  # c\n\\\ntext \\\n# tail; #!x\n"),
    ("lastline1", '@dec\ndef f():\n    return """\n# end"""'),
    ("lastline2", '@a\n@b(1,\n  2)\n@c\nclass K:\n    x = """\n# t\n#"""\ny = 1\n'),
    ("lastline3", "x = 0\n@dec\nasync def f(p):\n    '''doc\n# end'''\n# real comment\n"),
    ("lastline4", '@dec\ndef f():\n  x = 1\n  @dec\n  @e\n  def g():\n    return f"""a{x}\n# end"""\n'),
    ("crlf1", "y = 1 \\\r\n\r\nz = 2\r\n"),
    ("crlf2", "x = 1\r\n# c\r\ny = \'\'\'a\r\n# b\'\'\'\r\nimport os; z = 2  # t\r\n"),
    ("clskw1", "class A(metaclass=M, *bases): pass\n"),
    ("clskw2", "class A(Base, tag=\'t\', *mixins):\n    x = 1\n"),
    ("clskw3", "class A(B, tag=\'t\', *[C, \"s\"][:1]): pass\ndef g():\n    class N(*a, k=\'1\', *b, **kw): pass\n"),
    ("callmix1", "f(a, k=\'1\', *b)\nf(*a, k=\"1\", *[\'b\'], **{\'c\': \"d\"})\nx = g(\'p\', sep=\'s\', *(\'q\',), **dict(z=\'r\'))\n"),
    ("emptydoc", "\"\"\nx = 1\n"),
    ("plain", "# 1\nprint(2)\n# 3\n# 4\nprint(5)\nx=[6,\n 7]\n# 8\n"),
    ("lead", "\n\n# c\n\nx=1\n\n\n# d\n\n"),
    ("cont", "x = 1 \\\n\ny = 2\n# c \\\n\nz = 3"),
    ("eofc", "x = 1\n# c"),
    ("eofc2", "x = (1,\n  2)  # c"),
    ("eofsp", "x = 1\n   "),
    ("semi", "a = 1; b = 2;\nimport os; c = 3  # t\n"),
]


def corpus_files():
    roots = [os.path.dirname(os.__file__), "/venv/lib/python3.12/site-packages"]
    files = []
    for root in roots:
        for d, ds, fs in os.walk(root):
            ds.sort()
            if (root == roots[0] and "site-packages" in d) or "/test" in d or "lib2to3" in d or "__pycache__" in d:
                continue
            for f in sorted(fs):
                if f.endswith(".py"):
                    files.append(os.path.join(d, f))
    return sorted(files)


def read_source(path):
    try:
        with open(path, encoding="utf-8") as f:
            src = f.read()
        ast.parse(src)
        return src
    except Exception:
        return None


def case_source(c):
    return c["src"] if "src" in c else read_source(c["path"])


def gen_cases(ctx, n, ncorpus):
    cases = []
    for tag, src in WITNESSES:
        cases.append({"kind": "witness", "tag": tag, "src": src, "sp": [1, 1]})
        cases.append({"kind": "witness", "tag": tag + "@", "src": src, "sp": [3, 5]})
    i = 0
    nfixed = len(cases)
    while len(cases) < n + nfixed:
        r = cm.rng(ctx.seed, "c10", i)
        i += 1
        src = G.gen_compilable(r)
        k = r.random()
        sp = [1, 1] if k < .7 else [r.randint(1, 40), r.choice([1, 1, 2, 5, 9])]
        case = {"kind": "gen", "i": i, "src": src, "sp": sp}
        k2 = r.random()
        if k2 < .06 and "\r" not in src:
            crlf = src.replace("\n", "\r\n")                      # CRLF line ends (FileText splits on "\n" only)
            if G.compiles(crlf):
                case["src"] = crlf
        cases.append(case)
    # sequences of operations on ONE FileText / PythonBlock object (cached attributes, re-basing, slicing)
    nseq = max(60, n // 8)
    for j in range(nseq):
        r = cm.rng(ctx.seed, "c10-seq", j)
        src = G.gen_compilable(r, max_elems=4)
        ops = []
        for _ in range(r.randint(3, 8)):
            k = r.random()
            if k < .3:
                ops.append(["read", r.choice(["endpos", "lines", "joined", "startpos", "endpos"])])
            elif k < .55:
                ops.append(["stmts"])
            elif k < .75:
                ops.append([r.choice(["rebase_ft", "rebase_block"]), r.randint(1, 30), r.choice([1, 1, 2, 5, 11])])
            elif k < .83:
                ops.append(["lits"])
            elif k < .93:
                ops.append(["piece", r.randint(0, 50)])
            else:
                ops.append(["concat", r.randint(0, 50), r.randint(1, 3)])
        ops.append(["stmts"])
        cases.append({"kind": "seq", "i": j, "src": src, "sp": [1, 1] if r.random() < .6 else [r.randint(1, 9), r.choice([1, 3, 7])],
                      "ops": ops, "loglevel_mid": r.choice([None, None, "DEBUG", "WARNING"])})
    cases.append({"kind": "seq", "tag": "alter-endpos", "src": "x = 1; y = 22222", "sp": [1, 1],
                  "ops": [["read", "endpos"], ["stmts"], ["rebase_ft", 1, 5], ["stmts"], ["rebase_block", 3, 2], ["stmts"]], "loglevel_mid": None})
    files = corpus_files()
    if ncorpus is not None and ncorpus < len(files):
        r = cm.rng(ctx.seed, "c10-corpus")
        files = sorted(r.sample(files, ncorpus))
    for p in files:
        cases.append({"kind": "corpus", "path": p, "sp": [1, 1]})
    return cases


# ---------------------------------------------------------------------------------------------
# implementation side

def _pieces_of(block):
    pieces = []
    for s in block.statements:
        n = s.ast_node
        pieces.append({"text": s.text.joined, "sp": [s.startpos.lineno, s.startpos.colno],
                       "node": None if n is None else [n.lineno, n.col_offset, type(n).__name__]})
    return pieces


def impl_seq(c):
    """a sequence of operations on the same FileText / PythonBlock objects; every `stmts` / `lits` step
    is an observation (current text, start position, end position, pieces)"""
    from pyflyby._file import FileText
    from pyflyby._parse import PythonBlock
    ft = FileText(c["src"], startpos=tuple(c["sp"]))
    block = None
    steps = []
    for op in c["ops"]:
        try:
            if op[0] == "read":
                v = getattr(ft, op[1])
                if op[1] == "endpos":
                    steps.append({"op": op, "endpos": [v.lineno, v.colno], "text": ft.joined, "sp": [ft.startpos.lineno, ft.startpos.colno]})
            elif op[0] == "stmts":
                block = PythonBlock(ft)
                steps.append({"op": op, "text": ft.joined, "sp": [ft.startpos.lineno, ft.startpos.colno],
                              "pieces": _pieces_of(block), "endpos": [ft.endpos.lineno, ft.endpos.colno]})
            elif op[0] == "rebase_ft":
                ft = FileText(ft, startpos=(op[1], op[2]))
            elif op[0] == "rebase_block":
                b = block if block is not None else PythonBlock(ft)
                block = PythonBlock(b.text, startpos=(op[1], op[2]))
                ft = block.text
            elif op[0] == "lits":
                b = PythonBlock(ft)
                steps.append({"op": op, "text": ft.joined, "sp": [ft.startpos.lineno, ft.startpos.colno],
                              "lits": [[n.startpos.lineno, n.startpos.colno] for n in b.string_literals()]})
            elif op[0] == "piece":
                st = (block if block is not None else PythonBlock(ft)).statements
                ft = st[op[1] % len(st)].text
                block = None
            elif op[0] == "concat":
                st = (block if block is not None else PythonBlock(ft)).statements
                i = op[1] % len(st)
                ft = FileText.concatenate([x.text for x in st[i:i + op[2]]])
                block = None
        except BaseException as e:
            steps.append({"op": op, "exc": type(e).__name__, "msg": str(e)[:160]})
            break
    return {"steps": steps}


def impl_case(c):
    import contextlib
    from pyflyby._parse import PythonBlock
    src = case_source(c)
    if src is None:
        return {"skip": "unreadable"}
    from pyflyby._log import logger
    old_level = getattr(logger, "level", None)
    if c.get("loglevel_mid"):
        logger.set_level(c["loglevel_mid"])
    try:
        if c["kind"] == "seq":
            with contextlib.redirect_stdout(io.StringIO()), contextlib.redirect_stderr(io.StringIO()), warnings.catch_warnings():
                warnings.simplefilter("ignore")
                return impl_seq(c)
        return impl_case_1(c, src)
    finally:
        if c.get("loglevel_mid") and old_level is not None:
            logger.setLevel(old_level)


def impl_case_1(c, src):
    import contextlib
    from pyflyby._parse import PythonBlock
    out = {}
    with contextlib.redirect_stdout(io.StringIO()), contextlib.redirect_stderr(io.StringIO()), warnings.catch_warnings():
        warnings.simplefilter("ignore")
        try:
            block = PythonBlock(src, startpos=tuple(c["sp"]))
            pieces = []
            for s in block.statements:
                n = s.ast_node
                pieces.append({"text": s.text.joined, "sp": [s.startpos.lineno, s.startpos.colno],
                               "node": None if n is None else [n.lineno, n.col_offset, type(n).__name__]})
            out["pieces"] = pieces
        except BaseException as e:
            out["exc"] = type(e).__name__
            out["msg"] = str(e)[:200]
        try:
            block = PythonBlock(src, startpos=tuple(c["sp"]))
            lits = []
            for n in block.string_literals():
                v = n.value
                lits.append([v if isinstance(v, str) else v.decode("latin-1"), [n.startpos.lineno, n.startpos.colno]])
            out["lits"] = lits
        except BaseException as e:
            out["lits_exc"] = type(e).__name__
    return out


# ---------------------------------------------------------------------------------------------
# model side

def c_nodes(nodes):
    return cm.clist(["(%s, %s, %s)" % (cm.cnat(n["start"][0]), cm.cnat(n["start"][1]), cm.cnat(n["last"])) for n in nodes])


def c_ends(nodes):
    return cm.clist(["(%s, %s)" % (cm.cnat(n["end"][0]), cm.cnat(n["end"][1])) for n in nodes])


def model_expr(src, sp, nodes):
    return "run_statements %s %s %s %s %s" % (cm.cstr(src), cm.cnat(sp[0]), cm.cnat(sp[1]), c_nodes(nodes), c_ends(nodes))


# ---- abstract AST for the string_literals() model (Text/StrLits.v) ----

AKIND = {"Dict": "AKDict", "FunctionDef": "AKFuncDef", "AsyncFunctionDef": "AKFuncDef", "arguments": "AKArguments",
         "IfExp": "AKIfExp", "Call": "AKCall", "keyword": "AKKeyword", "ClassDef": "AKClassDef", "JoinedStr": "AKJoinedStr",
         "FormattedValue": "AKFormattedValue", "MatchAs": "AKMatchAs", "MatchMapping": "AKMatchMapping"}
AFIELDS = {"Dict": ["keys", "values"], "FunctionDef": ["args", "body", "decorator_list", "returns", "type_params"],
           "AsyncFunctionDef": ["args", "body", "decorator_list", "returns", "type_params"],
           "arguments": ["posonlyargs", "args", "vararg", "kwonlyargs", "kw_defaults", "kwarg", "defaults"],
           "IfExp": ["test", "body", "orelse"], "Call": ["func", "args", "keywords"], "keyword": ["value"],
           "ClassDef": ["bases", "keywords", "body", "decorator_list", "type_params"], "JoinedStr": ["values"],
           "FormattedValue": ["value", "format_spec"], "MatchAs": ["pattern"], "MatchMapping": ["keys", "patterns"]}


def abstract_ast(src, sp, max_nodes=450):
    """(Gallina term of type anode, fuel) for the module, or None if too large.  Fields are listed in the
    order of CPython's _fields; a node without position gets the start of its first positioned
    descendant and is dropped if it has none (Load, Add, ...)."""
    tree = ast.parse(src)
    lines = src.split("\n")
    l0, c0 = sp
    at_starts = None
    count = [0]

    def place(lineno, ccol):
        return (l0 + lineno - 1, (c0 if lineno == 1 else 1) + ccol)

    def conv(n):
        nonlocal at_starts
        count[0] += 1
        name = type(n).__name__
        fields = []
        for f in AFIELDS.get(name, [f for f in n._fields]):
            v = getattr(n, f, None)
            if isinstance(v, ast.AST):
                fields.append([conv(v)])
            elif isinstance(v, list):
                items = [conv(x) if isinstance(x, ast.AST) else None for x in v if isinstance(x, ast.AST) or x is None]
                fields.append(items)
            elif name in AFIELDS:
                fields.append([])
        # drop position-less leaves from the default layout (they have no effect on what is reported)
        kids = [x for fl in fields for x in fl if x is not None]
        if hasattr(n, "lineno"):
            lineno, ccol = n.lineno, G.char_col(lines[n.lineno - 1], n.col_offset)
            if getattr(n, "decorator_list", None):
                d = n.decorator_list[0]
                dpos = (d.lineno, G.char_col(lines[d.lineno - 1], d.col_offset))
                if at_starts is None:
                    at_starts = G.logical_line_starts(src)
                cands = [p for p, t in at_starts if t == "@" and p <= dpos]
                if cands:
                    lineno, ccol = cands[-1]
            start = place(lineno, ccol)
            raw = (n.lineno, n.col_offset)
        else:
            starts = [k["start"] for k in kids if k is not None]
            if not starts and name != "Module":
                return None
            start = min(starts) if starts else tuple(sp)
            raw = (0, 0)
        if name not in AFIELDS:
            fields = [[x for x in fl if x is not None] for fl in fields]
        is_str = isinstance(n, ast.Constant) and isinstance(n.value, (str, bytes))
        return {"kind": AKIND.get(name, "AKDefault"), "raw": raw, "start": start, "is_str": is_str, "fields": fields,
                "depth": 1 + max([k["depth"] for k in kids if k is not None] or [0])}

    root = conv(tree)
    if root is None or count[0] > max_nodes:
        return None

    def term(a):
        if a is None:
            return "None"
        fs = cm.clist([cm.clist(["None" if x is None else "(Some %s)" % term(x) for x in fl]) for fl in a["fields"]])
        return "(ANode %s (%s, %s) (mkPos %s %s) %s %s)" % (a["kind"], cm.cnat(a["raw"][0]), cm.cnat(a["raw"][1]),
                                                           cm.cnat(a["start"][0]), cm.cnat(a["start"][1]), cm.cbool(a["is_str"]), fs)
    if root["start"][1] >= 4000 or any(len(l) >= 3900 for l in lines):
        return None
    return term(root), root["depth"] + 1


def modelable(src, sp, nodes):
    if len(src) > MAX_MODEL_CHARS or src.count("\n") > MAX_MODEL_LINES:
        return False
    return all(n["start"][1] < 4000 and n["end"][1] < 4000 for n in nodes) and sp[0] + src.count("\n") < 4000


# ---------------------------------------------------------------------------------------------
# oracle

def advance(pos, s):
    l, c = pos
    k = s.count("\n")
    if k == 0:
        return (l, c + len(s))
    return (l + k, 1 + len(s) - s.rfind("\n") - 1)


def string_token_starts(src, sp):
    out = set()
    l0, c0 = sp
    try:
        for t in tokenize.generate_tokens(io.StringIO(src).readline):
            if t.type in (tokenize.STRING, tokenize.FSTRING_START, tokenize.FSTRING_MIDDLE):
                out.add((l0 + t.start[0] - 1, (c0 if t.start[0] == 1 else 1) + t.start[1]))
    except Exception:
        return None
    return out


def dump_modulo_blanks(node):
    import copy
    node = copy.deepcopy(node)
    for x in ast.walk(node):
        if isinstance(x, ast.Constant) and isinstance(x.value, (str, bytes)):
            x.value = x.value.translate({32: None, 9: None, 12: None}) if isinstance(x.value, str) else x.value.replace(b" ", b"").replace(b"\t", b"").replace(b"\x0c", b"")
    return ast.dump(node)


def oracle(c, src, tree, im):
    """Return list of (clause, detail) violations of the property on the implementation's output."""
    bad = []
    if "exc" in im:
        return [("statements_total", "PythonBlock.statements raised %s: %s" % (im["exc"], im.get("msg", "")[:120]))]
    pieces = im["pieces"]
    if "".join(p["text"] for p in pieces) != src:
        bad.append(("split_lossless", "concatenation of the pieces differs from the input"))
    code = [p for p in pieces if p["node"] is not None]
    if len(code) != len(tree.body):
        bad.append(("one_node_per_piece", "%d pieces own a node, the module has %d top-level statements" % (len(code), len(tree.body))))
    else:
        for p, n in zip(code, tree.body):
            try:
                t2 = ast.parse(textwrap.dedent(p["text"]) if c.get("indent") else p["text"])
                # in an indented block the VALUE of a multi-line string depends on how much margin dedent
                # removes (the whole block's vs the lone piece's): compare modulo blanks inside str constants
                dump = dump_modulo_blanks if c.get("indent") else ast.dump
                if len(t2.body) != 1 or dump(t2.body[0]) != dump(n):
                    bad.append(("syntax_aligned", "piece %r does not re-parse to the statement at line %d" % (p["text"][:60], n.lineno)))
                    break
            except (SyntaxError, ValueError) as e:
                bad.append(("syntax_aligned", "piece %r does not parse alone (%s)" % (p["text"][:60], type(e).__name__)))
                break
    for p in pieces:
        if p["node"] is None and any(l.strip() and not l.strip().startswith("#") for l in p["text"].split("\n")):
            bad.append(("noncode_pieces_blank_or_comment", "node-less piece %r holds code" % p["text"][:60]))
            break
    pos = tuple(c["sp"])
    for p in pieces:
        if p["node"] is not None and tuple(p["sp"]) != pos:
            bad.append(("piece_startpos", "piece %r reports %s, its first character is at %s" % (p["text"][:40], p["sp"], list(pos))))
            break
        pos = advance(pos, p["text"])
    # string literals
    if "lits_exc" in im:
        bad.append(("string_literal_positions", "string_literals() raised %s" % im["lits_exc"]))
    elif "lits" in im:
        want = sorted((v if isinstance(v, str) else v.decode("latin-1")) for v in
                      (n.value for n in ast.walk(tree) if isinstance(n, ast.Constant) and isinstance(n.value, (str, bytes))))
        # format specs of f-strings are not walked by pyflyby (FormattedValue yields its value only): allow a sub-multiset
        # (pyflyby parses textwrap.dedent(source), which blanks whitespace-only lines even inside
        #  multi-line strings: values are compared modulo that)
        blank = lambda v: v.replace(" ", "").replace("\t", "").replace("\x0c", "")
        want = sorted(blank(v) for v in want)
        have = sorted(blank(v) for v, _ in im["lits"])
        it = iter(want)
        if not all(any(h == w for w in it) for h in have):
            bad.append(("string_literal_positions", "reported literals are not literals of the module"))
        margin = c.get("indent", 0)
        starts = string_token_starts(G.dedent_by(src, margin) if margin else src, tuple(c["sp"]))
        if starts is not None and margin:
            starts = {(l, col + margin) for l, col in starts}
        if starts is not None:
            lines = src.split("\n")
            l0, c0 = c["sp"]
            for v, (l, col) in im["lits"]:
                if (l, col) in starts:
                    continue
                # self-documenting f-string part ("x=" sits where the expression starts)
                li = l - l0
                ci = col - (c0 if li == 0 else 1)
                head = v.split("\n")[0]
                if 0 <= li < len(lines) and head and lines[li][ci:ci + len(head)] == head:
                    continue
                if 0 <= li < len(lines) and "=" in v and lines[li][ci:ci + 1] not in ("", " ") and "{" in lines[li][:ci]:
                    continue
                bad.append(("string_literal_positions", "literal %r reported at %s, no string token starts there" % (v[:30], [l, col])))
                break
    return bad


def f40_safe(src):
    try:
        return f40_logical_line_starts_with_backslash(src)
    except (SyntaxError, ValueError):
        return False


def f40_logical_line_starts_with_backslash(src):
    """classifier of known finding F40: a physical line that holds nothing but a continuation
    backslash and is not inside a string - i.e. a logical line that *begins* with backslash-newline.
    CPython reports the statement's start after it; _split_code_lines leaves the lone backslash in
    the preceding statement's piece, which then does not parse alone."""
    lines = src.split("\n")
    cands = [i + 1 for i, l in enumerate(lines) if l.strip(" \t\x0c") == "\\"]
    if not cands:
        return False
    inside = set()
    try:
        for t in tokenize.generate_tokens(io.StringIO(src).readline):
            if t.type in (tokenize.STRING, tokenize.FSTRING_MIDDLE, tokenize.FSTRING_START, tokenize.FSTRING_END) or t.end[0] > t.start[0]:
                inside.update(range(t.start[0], t.end[0] + 1))
    except Exception:
        return False
    tree = ast.parse(src)
    for n in ast.walk(tree):
        if isinstance(n, ast.JoinedStr):
            inside.update(range(n.lineno, n.end_lineno + 1))
    return any(i not in inside for i in cands)


# ---------------------------------------------------------------------------------------------

def prepare(cases):
    """Per case: source, independent node list, Gallina expression (or None)."""
    prep = []
    for c in cases:
        src = case_source(c)
        if src is None:
            prep.append(None)
            continue
        try:
            tree, nodes = G.nodes_of(src, tuple(c["sp"]), c.get("indent", 0))
        except (SyntaxError, ValueError):
            prep.append(None)
            continue
        lits_expr = None
        if len(src) <= 1500 and "\r" not in src and not c.get("indent"):
            try:
                a = abstract_ast(src, tuple(c["sp"]))
            except (AssertionError, RecursionError):
                a = None
            if a is not None:
                lits_expr = "run_strlits %s %s" % (cm.cnat(a[1]), a[0])
        prep.append({"src": src, "tree": tree, "nodes": nodes, "lits_expr": lits_expr,
                     "expr": model_expr(src, c["sp"], nodes) if modelable(src, c["sp"], nodes) else None})
    return prep


def compare_one(ctx, c, p, im, mv):
    nodes = p["nodes"]
    nontriv = len(nodes) > 0
    ctx.bump("kind:" + c["kind"])
    if "skip" in im:
        ctx.count(c, False)
        return
    short = dict(c)
    if c["kind"] == "corpus":
        short = {"kind": "corpus", "path": c["path"], "sp": c["sp"]}
    # oracle on the implementation's result
    for clause, detail in oracle(c, p["src"], p["tree"], im):
        if clause == "syntax_aligned" and f40_safe(G.dedent_by(p["src"], c["indent"]) if c.get("indent") else p["src"]):
            ctx.known_hit("F40", "a logical line beginning with a lone continuation backslash: the backslash line stays in the preceding statement's piece (%s)" % detail[:90])
            ctx.bump("F40")
        else:
            ctx.violation(clause, short, detail)
    if mv is not None:
        ctx.bump("model_evaluated")
        if not mv["wf"]:
            ctx.disagreement("wf_nodes is false on CPython's node list", short, None, mv)
        if not mv["lead_ok"]:
            ctx.disagreement("leading_ok is false: text before the first node is not comments/blanks", short, None, mv)
        if not mv["ends_ok"]:
            ctx.disagreement("ends_ok is false on CPython's node list", short, None, mv)
        if "exc" in im:
            if mv["pieces"] is not None:
                ctx.disagreement("statements: implementation raises, model returns pieces", short, im, mv["pieces"][:3])
        else:
            raw_index = {tuple(n["raw"]): i for i, n in enumerate(nodes)}
            impl_p = []
            for q in im["pieces"]:
                idx = None
                if q["node"] is not None:
                    idx = raw_index.get((q["node"][0], q["node"][1]))
                    if idx is None or nodes[idx]["type"] != q["node"][2]:
                        idx = "unknown-node:%s" % (q["node"],)
                impl_p.append({"node": idx, "text": q["text"], "sp": q["sp"]})
            if mv["pieces"] != impl_p:
                k = next((i for i, (a, b) in enumerate(zip(impl_p, mv["pieces"] or [])) if a != b), None)
                ctx.disagreement("PythonBlock.statements", short,
                                 {"n": len(impl_p), "first_diff": k, "at": impl_p[k] if k is not None else None},
                                 {"n": len(mv["pieces"] or []), "at": (mv["pieces"] or [None])[k] if k is not None and mv["pieces"] else None})
            for q in (mv["pieces"] or []):
                if q["node"] is None and q["text"].startswith("\n") and q["text"] != "\n":
                    ctx.disagreement("model piece starts with a newline", short, None, q)
            ctx.bump("pieces:%s" % min(len(impl_p) // 5 * 5, 40))
            if any(q["node"] is None for q in impl_p):
                ctx.bump("has_noncode_piece")
            if any(q["sp"][1] != 1 and q["node"] is not None for q in impl_p[1:]):
                ctx.bump("has_midline_piece")
    if any(ord(ch) > 127 for ch in p["src"][:20000]):
        ctx.bump("nonascii")
    if not p["src"].endswith("\n"):
        ctx.bump("no_final_newline")
    if c["sp"] != [1, 1]:
        ctx.bump("shifted_startpos")
    ctx.count(short, nontriv)
    if nontriv and c["kind"] == "gen":
        ctx.sample({"case": c, "impl_pieces": im.get("pieces", [])[:6]}, limit=3)


def run_sequences(ctx, cases, impl):
    """every observation of a sequence is compared with the (pure) model evaluated afresh on the current
    text and start position; the text itself must be what the operations imply"""
    exprs, where = [], []
    for ci, (c, im) in enumerate(zip(cases, impl)):
        if "__exc__" in im or "__timeout__" in im:
            ctx.violation("harness", c, im)
            continue
        for si, st in enumerate(im["steps"]):
            if "exc" in st:
                ctx.violation("statements_total", c, "step %d %s of a sequence on one object raised %s: %s" % (si, st["op"], st["exc"], st.get("msg", "")))
                continue
            if "pieces" in st or "endpos" in st:
                try:
                    tree, nodes = G.nodes_of(st["text"], tuple(st["sp"]))
                except (SyntaxError, ValueError):
                    continue
                if modelable(st["text"], st["sp"], nodes):
                    exprs.append(model_expr(st["text"], st["sp"], nodes))
                    where.append((ci, si, nodes))
    model = cm.coq_eval_json(REQ, exprs, shard=60)
    for (ci, si, nodes), mv in zip(where, model):
        c, st = cases[ci], impl[ci]["steps"][si]
        ctx.bump("seq_steps_compared")
        if mv["endpos"] != st["endpos"]:
            ctx.disagreement("FileText.endpos after a sequence of operations on one object", c, {"step": si, "op": st["op"], "endpos": st["endpos"], "sp": st["sp"]}, mv["endpos"])
        if "pieces" in st:
            if "".join(q["text"] for q in st["pieces"]) != st["text"]:
                ctx.violation("split_lossless", c, "step %d: pieces do not concatenate to the current text %r" % (si, st["text"][:60]))
            raw_index = {tuple(n["raw"]): i for i, n in enumerate(nodes)}
            impl_p = [{"node": None if q["node"] is None else raw_index.get((q["node"][0], q["node"][1]), "unknown"),
                       "text": q["text"], "sp": q["sp"]} for q in st["pieces"]]
            if mv["pieces"] != impl_p:
                ctx.disagreement("PythonBlock.statements after a sequence of operations on one object", c,
                                 {"step": si, "ops": c["ops"][:si + 1], "pieces": impl_p[-3:]}, (mv["pieces"] or [])[-3:])
    for c, im in zip(cases, impl):
        if "steps" in im:
            ctx.bump("kind:seq")
            ctx.count({k: v for k, v in c.items()}, True)


def run(ctx):
    cm.check_anchors(ctx, ANCHORS)
    scale = getattr(ctx, "scale", 1)
    n = (900 if ctx.quick else 12000) * scale
    ncorpus = 160 * scale if ctx.quick else None
    ctx.coverage["rule"] = ("generated statement soups (70%% at (1,1), 30%% at a shifted start position) + the F1/F3/F32/F33/F35 witnesses + "
                            "a sample (thorough: all) of the stdlib/site-packages .py files; model evaluated in the kernel on every generated "
                            "case and on corpus files up to %d characters, oracle on all; non-trivial = module has at least one statement; "
                            "distinct by hash of the case" % MAX_MODEL_CHARS)
    ctx.assumptions += [
        "CPython's top-level node list (start as character column, '@' of the first decorator, absolute last line, end position) is an oracle argument computed by the harness from ast + tokenize, independently of pyflyby; wf_nodes and ends_ok are evaluated on it for every case",
        "history independence: sequences of operations on one FileText / PythonBlock object (reading cached attributes, re-basing with FileText(ft, startpos) / PythonBlock(block.text, startpos), taking a piece, concatenating pieces, splitting again) are compared step by step with the pure model evaluated afresh; 20%/10% of all cases run with PYFLYBY_LOG_LEVEL=DEBUG/WARNING at import, some switch the level mid-process",
        "the tag carried by a piece is the node's index; the re-parse that PythonBlock performs on split-off blank/comment blocks is represented by 'no node'",
    ]
    ctx.notes["trusted_base"] = ["CPython ast/tokenize positions (node oracle), compared with pyflyby's own annotation on every case"]
    cases = cm.load_corpus("C10") + gen_cases(ctx, n, ncorpus)
    # observables must not depend on the log level: a share of the cases runs with PYFLYBY_LOG_LEVEL set to
    # DEBUG / WARNING at import (the rest: ERROR), some set the level mid-process (loglevel_mid)
    impl = [None] * len(cases)
    groups = {"ERROR": [], "DEBUG": [], "WARNING": []}
    for i, c in enumerate(cases):
        k = cm.derive_seed(ctx.seed, "c10-loglevel", i) % 20
        groups["DEBUG" if k < 4 else "WARNING" if k < 6 else "ERROR"].append(i)
    for level, idxs in groups.items():
        res = cm.run_impl("c10", "impl_case", [cases[i] for i in idxs], timeout_case=120, env_extra={"PYFLYBY_LOG_LEVEL": level})
        for i, r in zip(idxs, res):
            impl[i] = r
            ctx.bump("loglevel:" + level)
    seq_idx = [i for i, c in enumerate(cases) if c["kind"] == "seq"]
    run_sequences(ctx, [cases[i] for i in seq_idx], [impl[i] for i in seq_idx])
    keep = [i for i, c in enumerate(cases) if c["kind"] != "seq"]
    cases = [cases[i] for i in keep]
    impl = [impl[i] for i in keep]
    prep = prepare(cases)
    exprs, where = [], []
    for i, p in enumerate(prep):
        if p is not None and p["expr"] is not None:
            where.append(i)
            exprs.append(p["expr"])
    model = cm.coq_eval_json(REQ, exprs, shard=40)
    mv = dict(zip(where, model))
    lexprs, lwhere = [], []
    for i, p in enumerate(prep):
        if p is not None and p.get("lits_expr"):
            lwhere.append(i)
            lexprs.append(p["lits_expr"])
    lmodel = dict(zip(lwhere, cm.coq_eval_json(REQ, lexprs, shard=40)))
    for i, (c, p, im) in enumerate(zip(cases, prep, impl)):
        if p is None:
            ctx.bump("skipped_unparsable")
            continue
        if "__exc__" in im or "__timeout__" in im:
            ctx.violation("harness", c if c["kind"] != "corpus" else {"path": c["path"]}, im)
            continue
        compare_one(ctx, c, p, im, mv.get(i))
        ml = lmodel.get(i)
        if ml is not None and "lits" in im:
            ctx.bump("strlits_model_evaluated")
            shortc = c if c["kind"] != "corpus" else {"kind": "corpus", "path": c["path"], "sp": c["sp"]}
            if not ml["ordered"]:
                ctx.disagreement("string_literals: `ordered` is false on CPython's positions (children not in source order)", shortc, None, ml)
            if ml["lits"] != [pos for _, pos in im["lits"]]:
                ctx.disagreement("PythonBlock.string_literals() positions", shortc, [pos for _, pos in im["lits"]], ml["lits"])
    ctx.notes["model_evaluations_in_kernel"] = len(exprs) + len(lexprs)
    ctx.notes["oracle_evaluations"] = sum(1 for p in prep if p is not None)


def replay(payload):
    case = payload.get("case") or payload["disagreements"][0]["case"]
    impl = cm.run_impl("c10", "impl_case", [case], jobs=1)
    if case.get("kind") == "seq":
        print(json.dumps({"case": case, "impl": impl[0]}, indent=1, ensure_ascii=False))
        return 0
    p = prepare([case])[0]
    model = cm.coq_eval_json(REQ, [p["expr"]]) if p and p["expr"] else [None]
    print(json.dumps({"case": case, "nodes": p["nodes"] if p else None, "impl": impl[0], "model": model[0],
                      "oracle": oracle(case, p["src"], p["tree"], impl[0]) if p else None}, indent=1, ensure_ascii=False))
    return 0

"""C09 - no file is modified without the configured go-ahead.

Correspondence: real bin/tidy-imports / reformat-imports / transform-imports invocations (unpatched
subprocesses, some under a pty; in-process via runpy for volume) with generated option lists,
1-6 file arguments of every kind and scripted answers, against Sys/Actions.v: parse outcome, exit
status class, the problem list, the files the loop started on (in-process), stdout, and for every
path of the scratch tree its kind / bytes / whether it got a new inode.
Oracle: byte / inode snapshot predicates stated from the property text."""
import json
import os
import re
import select
import shutil
import subprocess
import sys
import tempfile

from . import common as cm

REQ = ["Sys.Actions", "Sys.Wire"]
ANCHORS = ["pyflyby._file:Filename.list", "pyflyby._cmdline:parse_args", "pyflyby._cmdline:process_actions", "pyflyby._cmdline:Modifier",
           "pyflyby._cmdline:filename_args", "pyflyby._cmdline:action_print", "pyflyby._cmdline:action_ifchanged",
           "pyflyby._cmdline:action_replace", "pyflyby._cmdline:action_exit1", "pyflyby._cmdline:action_external_command",
           "pyflyby._cmdline:action_query", "pyflyby._cmdline:symlink_callback", "pyflyby._cmdline:symlink_error",
           "pyflyby._cmdline:symlink_follow", "pyflyby._cmdline:symlink_skip", "pyflyby._cmdline:symlink_replace",
           "pyflyby._file:expand_py_files_from_args", "pyflyby._file:read_file"]

TOOLS = {
    "tidy-imports": {"extra": [], "chg": "import os, sys\nos\n# %s\n", "same": "import os\nos\n# %s\n", "bad": "def (:\n# %s\n"},
    "reformat-imports": {"extra": [], "chg": "import sys, os\nos, sys\n# %s\n", "same": "import os\nimport sys\nos, sys\n# %s\n", "bad": "import (\n# %s\n"},
    "transform-imports": {"extra": ["--transform=aa.bb=xx.yy"], "chg": "from aa.bb import cc\ncc\n# %s\n", "same": "import qq\nqq\n# %s\n", "bad": "def (:\n# %s\n"},
}
# file kinds whose processing fails, each with a different exception class
FAIL_KINDS = {"nul": "import os, sys\nos\n\x00\n# %s\n",            # SyntaxError / ValueError (null byte)
              "deep": "x = " + "-" * 3000 + "1\n# %s\n"}             # RecursionError
BIN_BYTES = b"\xff\xfe not utf-8 # %s\n"                            # UnicodeDecodeError in read_file
TEXT_KINDS = ("chg", "same", "bad", "nul", "deep")
ANSWERS = ["y", "n", "", "Yes", "no", " y", "YES", "yn", "\ty", "ok", "Y ", " ", "\t", "yes please", "q"]
SYMVALS = ["error", "follow", "skip", "replace"]
ACTION_WORDS = {"PRINT": "Print", "REPLACE": "Replace", "IFCHANGED": "IfChanged", "QUERY": "Query", "DIFF": "Diff",
                "EXIT1": "Exit1", "EXECUTE:true": "Execute", "QUERY:Go on?": "Query"}


# ---------------------------------------------------------------------------------------------
# generators

def gen_opts(r):
    """argv options + the corresponding model terms"""
    argv, terms = [], []
    for _ in range(r.choice([0, 1, 1, 2, 2, 3, 4])):
        k = r.random()
        if k < .3:
            v = r.choice(SYMVALS + SYMVALS + ["bogus"])
            argv.append(r.choice(["--symlinks=%s", "--symlinks=%s"]) % v)
            terms.append("OSymlinksBad" if v == "bogus" else "(OSymlinks SV%s)" % v.capitalize())
        elif k < .5:
            argv.append(r.choice(["-r", "--replace"]))
            terms.append("OReplace")
        elif k < .57:
            argv.append(r.choice(["-p", "--print"]))
            terms.append("OPrint")
        elif k < .62:
            argv.append(r.choice(["-d", "--diff"]))
            terms.append("ODiff")
        elif k < .67:
            argv.append(r.choice(["-R", "--diff-replace"]))
            terms.append("ODiffReplace")
        elif k < .72:
            argv.append(r.choice(["-i", "--interactive"]))
            terms.append("OInteractive")
        elif k < .78:
            argv.append(r.choice(["--quiet", "--uniform"]))
            terms.append("OOther")
        else:
            words = [r.choice(list(ACTION_WORDS)) for _ in range(r.randint(1, 4))]
            if r.random() < .06:
                words.insert(r.randint(0, len(words)), "BOGUS")
            shown = [w.lower() if (r.random() < .2 and ":" not in w) else w for w in words]
            if r.random() < .15:
                shown = [" " + w if ":" not in w else w for w in shown]
            argv.append("--actions=" + ",".join(shown))
            terms.append("OActionsBad" if "BOGUS" in words else "(OActions %s)" % cm.clist([ACTION_WORDS[w] for w in words]))
    return argv, terms


def gen_layout(r, base, rich=False):
    """entries of the directory argument d: regular files, hidden / non-py / __pycache__ entries, a sub-directory,
    symlinked *.py files (to targets inside and outside the directory, a chain, dangling, hidden, non-py name),
    a symlinked sub-directory"""
    ents = [["inner.py", "chg"]]
    opt = [["z.txt", "chg"], [".hidden.py", "chg"], ["sub/deep.py", "chg"], ["sub/same.py", "same"], ["__pycache__/c.py", "chg"],
           ["a_bad.py", r.choice(["bad", "bin", "nul"])]]
    ents += [e for e in opt if r.random() < .6]
    have_sub = any(e[0].startswith("sub/") for e in ents)
    links = [["lk_in.py", "link:d/inner.py"], ["lk_out.py", "link:" + r.choice(base)], ["lk_dang.py", "dangling"],
             ["lk.txt", "link:d/inner.py"], [".lk_hidden.py", "link:" + r.choice(base)]]
    if have_sub:
        links += [["sub/lk_up.py", "link:" + r.choice(["d/inner.py"] + base)], ["lsub", "dirlink:d/sub"]]
    chosen = [l for l in links if r.random() < (.6 if rich else .25)]
    if any(l[0] == "lk_in.py" for l in chosen) and r.random() < .6:
        chosen.append(["lk_chain.py", "link:d/lk_in.py"])
    return ents + chosen


def gen_case(r, i, mode=None):
    tool = r.choice(["tidy-imports", "tidy-imports", "reformat-imports", "transform-imports"])
    files = {}
    abs_links = []
    nbase = r.randint(1, 4)
    base = ["f%d.py" % j for j in range(nbase)]
    for b in base:
        files[b] = r.choice(["chg", "chg", "chg", "same", "bad", "bad", "nul", "deep", "bin"])
    layout = None
    link_text = None
    if r.random() < .22:
        files["d"] = "dir"
        layout = {"d": gen_layout(r, base)}
    # symlinks: one hop or chains of 2-3 hops, relative or absolute text, into the directory, dangling, a loop
    nlinks = r.choice([0, 0, 1, 1, 2, 3])
    links = []
    for j in range(nlinks):
        name = "l%d.py" % j
        pool = base + links + links                       # pointing at an earlier link makes a chain
        if "d" in files:
            pool.append("d/inner.py")
        files[name] = "link:" + r.choice(pool)
        links.append(name)
        if r.random() < .4:
            abs_links.append(name)
    if r.random() < .12:
        files["dang.py"] = "dangling"
        if links and r.random() < .5:
            files["l9.py"] = "link:dang.py"                # a chain that ends nowhere
    if r.random() < .08:
        files["loopa.py"] = "link:loopb.py"
        files["loopb.py"] = "link:loopa.py"
    if r.random() < .2:
        files["gone.py"] = "missing"
    args = list(files)
    r.shuffle(args)
    if r.random() < .15 and base:
        args.append(r.choice(base))                    # the same file twice
    args = args[:6]
    argv, terms = gen_opts(r)
    answers = [r.choice(ANSWERS) for _ in range(r.randint(0, 6))]
    if r.random() < .15:
        # QUERY-shaped: regular files only, one QUERY ahead of REPLACE, answers of every flavour, EOF included
        files = {b: r.choice(["chg", "chg", "chg", "same", "bad"]) for b in base}
        abs_links = []
        layout = None
        args = list(files)
        r.shuffle(args)
        k = r.random()
        if k < .3:
            argv, terms = ["--actions=QUERY,REPLACE"], ["(OActions [Query; Replace])"]
        elif k < .6:
            argv, terms = ["--actions=IFCHANGED,QUERY,REPLACE"], ["(OActions [IfChanged; Query; Replace])"]
        elif k < .8:
            argv, terms = ["--actions=ifchanged,QUERY:Rewrite?,replace"], ["(OActions [IfChanged; Query; Replace])"]
        else:
            argv, terms = ["-i"], ["OInteractive"]
        answers = [r.choice(ANSWERS) for _ in range(r.randint(0, len(args) + 1))]
    elif r.random() < .12:
        # chain-shaped: a symlink chain of 2-3 hops given as argument under an explicit policy with REPLACE reachable
        files = {"f0.py": r.choice(["chg", "chg", "chg", "same", "bad", "bin"]), "f1.py": "chg"}
        hops = r.randint(2, 3)
        names = ["l%d.py" % j for j in range(hops)]
        layout = None
        if r.random() < .3:
            files["d"] = "dir"
            layout = {"d": gen_layout(r, ["f0.py", "f1.py"])}
        end = "d/inner.py" if "d" in files and r.random() < .5 else "f0.py"
        for j, nm in enumerate(names):
            files[nm] = "link:" + (names[j + 1] if j + 1 < hops else end)
        abs_links = [nm for nm in names if r.random() < .4]
        args = [names[0]] + ([r.choice(names[1:] + ["f1.py", "f0.py"])] if r.random() < .5 else [])
        r.shuffle(args)
        pol = r.choice(["follow", "follow", "follow", "replace", "skip", "error"])
        act = r.choice([("-r", "OReplace"), ("--actions=REPLACE", "(OActions [Replace])"), ("--actions=PRINT,REPLACE", "(OActions [Print; Replace])")])
        argv, terms = ["--symlinks=" + pol, act[0]], ["(OSymlinks SV%s)" % pol.capitalize(), act[1]]
        if r.random() < .5:
            argv.reverse()
            terms.reverse()
    elif r.random() < .04:
        # many arguments: 20-60 regular files of every flavour (and a few missing names) in one invocation
        files = {"g%02d.py" % j: r.choice(["chg", "chg", "same", "bad", "bin", "missing"]) for j in range(r.randint(20, 60))}
        abs_links, layout = [], None
        args = list(files)
        r.shuffle(args)
    elif r.random() < .07:
        # dot-dot-shaped: the link text goes through a directory symlink and then "..": the kernel resolves it
        # component by component (current -> releases/v2, so current/.. is releases), a textual normalisation
        # ends at a decoy (shared/conf.py)
        files = {"releases": "dir", "shared": "dir", "current": "dirlink:releases/v2",
                 "conf.py": "link:releases/shared/conf.py", "f1.py": "chg"}
        layout = {"releases": [["v2/keep.py", "same"], ["shared/conf.py", r.choice(["chg", "chg", "same", "bad"])]],
                  "shared": [["conf.py", "chg"]]}
        link_text = {"conf.py": r.choice(["current/../shared/conf.py", "./current/../shared/conf.py", "current//../shared/conf.py",
                                          "current/../shared/./conf.py", "current/./../shared//conf.py"])}
        if r.random() < .5:
            link_text["current"] = r.choice(["releases/v2/", "./releases//v2", "releases/v2/."])
        if r.random() < .4:
            files["l0.py"] = "link:conf.py"
        abs_links = []
        args = [r.choice(["conf.py", "l0.py"]) if "l0.py" in files else "conf.py"] + (["f1.py"] if r.random() < .3 else [])
        pol = r.choice(["follow", "follow", "follow", "replace", "skip", None])
        act = r.choice([("-r", "OReplace"), ("--actions=REPLACE", "(OActions [Replace])")])
        argv, terms = [act[0]], [act[1]]
        if pol:
            argv.append("--symlinks=" + pol)
            terms.append("(OSymlinks SV%s)" % pol.capitalize())
    elif r.random() < .14:
        # directory-shaped: a directory argument holding symlinked *.py entries, under an explicit or the default
        # policy, with REPLACE reachable
        files = {"f0.py": r.choice(["chg", "chg", "same", "bad"]), "f1.py": "chg", "d": "dir"}
        layout = {"d": gen_layout(r, ["f0.py", "f1.py"], rich=True)}
        abs_links = ["d/" + e[0] for e in layout["d"] if is_link_kind(e[1]) and r.random() < .4]
        args = ["d"] + ([r.choice(["f0.py", "f1.py"])] if r.random() < .4 else [])
        r.shuffle(args)
        pol = r.choice(["skip", "skip", "error", "follow", "replace", None, None])
        act = r.choice([("-r", "OReplace"), ("--actions=REPLACE", "(OActions [Replace])"), ("--actions=PRINT,REPLACE", "(OActions [Print; Replace])")])
        argv, terms = [act[0]], [act[1]]
        if pol:
            argv.append("--symlinks=" + pol)
            terms.append("(OSymlinks SV%s)" % pol.capitalize())
            if r.random() < .5:
                argv.reverse()
                terms.reverse()
    m = mode or ("subprocess" if r.random() < .12 else "inprocess")
    tty = (m == "subprocess" and r.random() < .25 and len(args) <= 8)
    if tty:
        answers = [a.replace("\t", " ") for a in answers]     # a tab on a terminal is the completion key
    return {"kind": "tool", "i": i, "tool": tool, "argv": argv, "terms": terms, "files": files, "args": args,
            "answers": answers, "mode": m, "tty": tty, "abs_links": abs_links, "layout": layout, "link_text": link_text}


def gen_many(r, i, nfail):
    """size extreme: nfail failing arguments (missing names are cheap) around the 8-bit exit status boundary"""
    files = {"m%04d.py" % j: "missing" for j in range(nfail)}
    files["f0.py"] = "chg"
    args = list(files)
    if r.random() < .5:
        r.shuffle(args)
    act = r.choice([("-r", "OReplace"), ("--actions=PRINT", "(OActions [Print])"), ("--actions=IFCHANGED,REPLACE", "(OActions [IfChanged; Replace])")])
    return {"kind": "tool", "i": i, "tool": "tidy-imports", "argv": [act[0]], "terms": [act[1]], "files": files, "args": args,
            "answers": [], "mode": r.choice(["inprocess", "subprocess"]), "tty": False, "abs_links": [], "layout": None}


DIR_LAYOUT = [("inner.py", "chg"), ("z.txt", "chg"), (".hidden.py", "chg"), ("sub/deep.py", "chg"),
              ("__pycache__/c.py", "chg"), ("sub/same.py", "same"), ("a_bad.py", "bad")]


def exhaustive_cases(seed):
    """every action tuple of length <= 3 over the seven actions x the four policies x one file of each kind"""
    import itertools
    words = ["PRINT", "REPLACE", "IFCHANGED", "QUERY", "DIFF", "EXIT1", "EXECUTE:true"]
    i = 0
    for n in (1, 2, 3):
        for tup in itertools.product(words, repeat=n):
            if "REPLACE" not in tup and n == 3:
                continue
            for pol in SYMVALS:
                i += 1
                r = cm.rng(seed, "c09", "exh", i)
                first = r.random() < .5
                a = "--actions=" + ",".join(tup)
                s = "--symlinks=" + pol
                argv = [s, a] if first else [a, s]
                terms = ["(OSymlinks SV%s)" % pol.capitalize(), "(OActions %s)" % cm.clist([ACTION_WORDS[w] for w in tup])]
                if not first:
                    terms.reverse()
                files = {"f0.py": "chg", "f1.py": "same", "f2.py": "bad", "l0.py": "link:f0.py", "gone.py": "missing", "d": "dir"}
                args = list(files)
                r.shuffle(args)
                yield {"kind": "tool", "i": 200000 + i, "tool": "tidy-imports", "argv": argv, "terms": terms, "files": files,
                       "args": args, "answers": [r.choice(["y", "n"]) for _ in range(r.randint(0, 8))], "mode": "inprocess", "tty": False}


# ---------------------------------------------------------------------------------------------
# implementation side

def content_of(tool, kind, tag):
    if kind in FAIL_KINDS:
        return FAIL_KINDS[kind] % tag
    return TOOLS[tool][kind] % tag


def layout_of(c):
    """directory name -> [[relative entry name, kind], ...]"""
    if c.get("layout") is not None:
        return c["layout"]
    return {n: [list(x) for x in DIR_LAYOUT] for n, k in c["files"].items() if k == "dir"}


def flat(c):
    """every path of the scratch tree (root-relative name -> kind); kinds: text kinds, bin, dir, missing,
    dangling, link:<root-relative target>, dirlink:<root-relative directory>"""
    m = dict(c["files"])
    for d, ents in layout_of(c).items():
        for rel, kind in ents:
            parts = rel.split("/")
            for i in range(1, len(parts)):
                m.setdefault(d + "/" + "/".join(parts[:i]), "dir")
            m[d + "/" + rel] = kind
    return m


def link_target(files, name):
    """the path a link's text denotes"""
    k = files[name]
    return "nowhere.py" if k == "dangling" else k.split(":", 1)[1]


def is_link_kind(k):
    return k == "dangling" or k.startswith("link:") or k.startswith("dirlink:")


def canonical(fm, name):
    """a traversal name like d/lsub/deep.py -> the name with symlinked directory components resolved"""
    parts = name.split("/")
    cur = ""
    for i, part in enumerate(parts):
        cur = part if not cur else cur + "/" + part
        k = fm.get(cur, "")
        if i < len(parts) - 1 and k.startswith("dirlink:"):
            cur = k[8:]
    return cur


def final_of(files, name):
    """independent restatement of path resolution on the generated tree: follow links (at most 40);
    returns the first non-link name (it may not exist), or None on a loop"""
    for _ in range(41):
        k = files.get(name)
        if k is None or not is_link_kind(k):
            return name
        name = link_target(files, name)
    return None


def build_tree(c, root):
    """returns {relname: abspath} of every watched path, and the texts written"""
    tool = c["tool"]
    fm = flat(c)
    watched = {}
    contents = {}
    for name, kind in fm.items():
        p = os.path.join(root, name)
        if kind == "dir":
            os.makedirs(p, exist_ok=True)
    for name, kind in fm.items():
        p = os.path.join(root, name)
        tag = name.split("/", 1)[1] if "/" in name else name
        if kind in TEXT_KINDS:
            contents[name] = content_of(tool, kind, tag)
            with open(p, "wb") as f:
                f.write(contents[name].encode("utf-8"))
            watched[name] = p
        elif kind == "bin":
            with open(p, "wb") as f:
                f.write(BIN_BYTES % tag.encode())
            watched[name] = p
        elif kind == "missing":
            watched[name] = p
    for name, kind in fm.items():
        p = os.path.join(root, name)
        if is_link_kind(kind):
            t = os.path.join(root, link_target(fm, name))
            if name in (c.get("link_text") or {}):
                os.symlink(c["link_text"][name], p)          # literal text: .., ., //, a trailing / ...
            elif name in c.get("abs_links", []) or kind == "dangling":
                os.symlink(t, p)
            else:
                os.symlink(os.path.relpath(t, os.path.dirname(p)), p)
            watched[name] = p
    return watched, contents


def snap_tree(watched, root):
    import stat as S
    out = {}
    for name, p in watched.items():
        try:
            st = os.lstat(p)
        except FileNotFoundError:
            out[name] = None
            continue
        if S.S_ISLNK(st.st_mode):
            raw = os.readlink(p)
            t = (raw if os.path.isabs(raw) else os.path.join(os.path.dirname(p), raw)).rstrip("/")
            hop = os.path.join(os.path.realpath(os.path.dirname(t)), os.path.basename(t))
            out[name] = {"link": os.path.relpath(hop, os.path.realpath(root)), "raw": raw.replace(root + "/", "ROOT/"),
                         "real": os.path.relpath(os.path.realpath(p), os.path.realpath(root)),
                         "id": [st.st_ino, st.st_ctime_ns]}
        elif S.S_ISREG(st.st_mode):
            with open(p, "rb") as f:
                b = f.read()
            try:
                out[name] = {"bytes": b.decode("utf-8"), "id": [st.st_ino, st.st_ctime_ns], "mode": S.S_IMODE(st.st_mode)}
            except UnicodeDecodeError:
                out[name] = {"bin": b.hex(), "id": [st.st_ino, st.st_ctime_ns], "mode": S.S_IMODE(st.st_mode)}
        else:
            out[name] = {"other": True}
    return out


def tool_path(tool):
    return os.path.join(os.environ.get("VERIF_REPO", cm.REPO), "bin", tool)


def run_inprocess(c, root, argv_full, answers_text):
    """fork; in the child run the real script with runpy (fds 0/1/2 redirected to files)"""
    out_p, err_p, in_p, log_p = (os.path.join(root, ".io", n) for n in ("out", "err", "in", "log"))
    os.makedirs(os.path.dirname(out_p), exist_ok=True)
    with open(in_p, "w") as f:
        f.write(answers_text)
    pid = os.fork()
    if pid == 0:
        rc = 97
        try:
            os.chdir(root)
            fi = os.open(in_p, os.O_RDONLY)
            fo = os.open(out_p, os.O_WRONLY | os.O_CREAT | os.O_TRUNC, 0o600)
            fe = os.open(err_p, os.O_WRONLY | os.O_CREAT | os.O_TRUNC, 0o600)
            os.dup2(fi, 0)
            os.dup2(fo, 1)
            os.dup2(fe, 2)
            import io
            sys.stdin = io.TextIOWrapper(io.FileIO(0, closefd=False))
            sys.stdout = io.TextIOWrapper(io.FileIO(1, "w", closefd=False), write_through=True)
            sys.stderr = io.TextIOWrapper(io.FileIO(2, "w", closefd=False), write_through=True)
            import pyflyby._cmdline as C
            import runpy
            started = []
            RealModifier = C.Modifier

            class LoggingModifier(RealModifier):
                def __init__(self, modifier, filename):
                    started.append(str(filename))
                    with open(log_p, "w") as f:
                        json.dump(started, f)
                    RealModifier.__init__(self, modifier, filename)
            C.Modifier = LoggingModifier
            sys.argv = argv_full
            try:
                runpy.run_path(argv_full[0], run_name="__main__")
                rc = 0
            except SystemExit as e:
                if e.code is None:
                    rc = 0
                elif isinstance(e.code, int):
                    rc = e.code
                else:
                    sys.stderr.write(str(e.code) + "\n")
                    rc = 1
            except BaseException:
                import traceback
                traceback.print_exc()
                rc = 1
            sys.stdout.flush()
            sys.stderr.flush()
        finally:
            os._exit(rc & 0xff)
    _, status = os.waitpid(pid, 0)
    rc = os.waitstatus_to_exitcode(status)
    started = json.load(open(log_p)) if os.path.exists(log_p) else []
    return rc, open(out_p, errors="replace").read(), open(err_p, errors="replace").read(), started


def run_subprocess(c, root, argv_full, answers_text):
    env = cm.impl_env(home=root)
    cmd = [cm.PY] + argv_full
    if not c["tty"]:
        p = subprocess.run(cmd, input=answers_text, stdout=subprocess.PIPE, stderr=subprocess.PIPE, text=True,
                           env=env, cwd=root, timeout=120)
        return p.returncode, p.stdout, p.stderr, None
    import pty
    master, slave = pty.openpty()
    p = subprocess.Popen(cmd, stdin=slave, stdout=slave, stderr=subprocess.PIPE, env=env, cwd=root, close_fds=True)
    os.close(slave)
    os.write(master, answers_text.encode() + b"\x04" * 40)
    out = b""
    err = b""
    import time
    t0 = time.time()
    fds = [master, p.stderr.fileno()]
    while fds and time.time() - t0 < 100:
        rl, _, _ = select.select(fds, [], [], 1.0)
        for fd in rl:
            try:
                d = os.read(fd, 65536)
            except OSError:
                d = b""
            if not d:
                fds.remove(fd)
            elif fd == master:
                out += d
            else:
                err += d
        if p.poll() is not None and not rl:
            break
    try:
        p.wait(timeout=20)
    except Exception:
        p.kill()
    os.close(master)
    return p.returncode, out.decode("utf-8", "replace").replace("\r\n", "\n"), err.decode("utf-8", "replace"), None


def rewriter_table(c, contents):
    """the tool's rewriting function on every text that can occur in this tree: run the real tool
    with --print on a scratch copy (closure under one more application)"""
    tool = c["tool"]
    table = {}
    todo = sorted(set(contents.values()))
    d = tempfile.mkdtemp(prefix="verif-c09m-")
    try:
        while todo:
            text = todo.pop()
            if text in table:
                continue
            if (tool, text) not in _TABLE_CACHE:
                p = os.path.join(d, "m.py")
                with open(p, "w") as f:
                    f.write(text)
                rc, out, err, _ = run_inprocess(c, d, [tool_path(tool)] + TOOLS[tool]["extra"] + ["--symlinks=replace", "--actions=PRINT", p], "")
                _TABLE_CACHE[(tool, text)] = out if rc == 0 else None
            table[text] = _TABLE_CACHE[(tool, text)]
            if table[text] is not None and table[text] not in table:
                todo.append(table[text])
    finally:
        shutil.rmtree(d, ignore_errors=True)
    return table


_TABLE_CACHE = {}


def parse_stderr(err, root):
    bad = [os.path.relpath(m.group(1), root) for m in re.finditer(r": bad filename (\S+)\n", err)]
    problems = []
    if "encountered the following problems:" in err:
        # entries are appended without a separating newline:  "    <path>: bad filename    <path>: <Exc>: msg..."
        tail = err.split("encountered the following problems:\n", 1)[1]
        for m in re.finditer(r"    (%s/[^\s:]+): (bad filename|\w+:)" % re.escape(root), tail):
            problems.append([os.path.relpath(m.group(1), root), m.group(2).rstrip(":")])
    return {"bad_printed": bad, "problems": problems,
            "symlink_abort": bool(re.search(r"^Error: \S+ appears to be a symlink", err, re.M)) and "encountered the following problems" not in err}


def impl_case(c):
    root = tempfile.mkdtemp(prefix="verif-c09-")
    try:
        watched, contents = build_tree(c, root)
        before = snap_tree(watched, root)
        table = rewriter_table(c, contents)
        argv_full = [tool_path(c["tool"])] + TOOLS[c["tool"]]["extra"] + c["argv"] + [os.path.join(root, a) for a in c["args"]]
        answers_text = "".join(a + "\n" for a in c["answers"])
        if c["mode"] == "inprocess":
            rc, out, err, started = run_inprocess(c, root, argv_full, answers_text)
        else:
            rc, out, err, started = run_subprocess(c, root, argv_full, answers_text)
        after = snap_tree(watched, root)
        extra = sorted(x for x in os.listdir(root) if x not in c["files"] and x != ".io")
        fm = flat(c)
        for dn in [n for n, k in fm.items() if k == "dir"]:
            extra += sorted(dn + "/" + x for x in os.listdir(os.path.join(root, dn)) if dn + "/" + x not in fm)
        res = {"rc": rc, "stdout": out.replace(root + "/", ""), "stderr_tail": err.replace(root + "/", "")[-30000:],
               "diag": parse_stderr(err, root), "before": before, "after": after, "table": sorted(table.items(), key=lambda kv: kv[0]),
               "started": None if started is None else [os.path.relpath(x, root) for x in started], "extra_entries": extra,
               "contents": contents}
        return res
    finally:
        shutil.rmtree(root, ignore_errors=True)


# ---------------------------------------------------------------------------------------------
# model side

def path_ids(c):
    """stable numbering of every path of the tree"""
    names = list(flat(c)) + ["nowhere.py"]
    return {n: i + 1 for i, n in enumerate(names)}


def children_of(fm, d):
    return sorted(n[len(d) + 1:] for n in fm if n.startswith(d + "/") and "/" not in n[len(d) + 1:])


def dir_members(fm, d):
    """harness restatement of expand_py_files_from_args for a directory argument: depth-first walk in sorted
    order, names starting with '.' and __pycache__ skipped, only entries that are files (through symlinks too)
    and end in .py, each under its own name; sub-directories (also symlinked ones) are recursed into"""
    out = []

    def walk(tname, real, depth):
        if depth > 30:
            return
        for b in children_of(fm, real):
            if b.startswith(".") or b == "__pycache__":
                continue
            fin = final_of(fm, real + "/" + b)
            k = fm.get(fin) if fin is not None else None
            if k in TEXT_KINDS or k == "bin":
                if b.endswith(".py"):
                    out.append(tname + "/" + b)
            elif k == "dir":
                walk(tname + "/" + b, fin, depth + 1)
    walk(d, d, 0)
    return out


def model_expr(c, im, fx=None):
    ids = path_ids(c)
    fm = flat(c)
    tool = c["tool"]
    nodes = []
    for name, kind in fm.items():
        tag = name.split("/", 1)[1] if "/" in name else name
        if kind in TEXT_KINDS:
            nodes.append("(%s, NFile %s 0%%N)" % (cm.cN(ids[name]), cm.cstr(content_of(tool, kind, tag))))
        elif kind == "bin":
            nodes.append("(%s, NBin 0%%N)" % cm.cN(ids[name]))
        elif kind == "dir":
            ents = ["(mkEnt %s %s %s %s)" % (cm.cbool(b.startswith(".")), cm.cbool(b == "__pycache__"), cm.cbool(b.endswith(".py")),
                                              cm.cN(ids[name + "/" + b])) for b in children_of(fm, name)]
            nodes.append("(%s, NDir %s)" % (cm.cN(ids[name]), cm.clist(ents)))
        elif is_link_kind(kind):
            nodes.append("(%s, NLink %s)" % (cm.cN(ids[name]), cm.cN(ids[link_target(fm, name)])))
    args = ["(APath %s)" % cm.cN(ids[a]) for a in c["args"]]
    tbl = cm.clist(["(%s, %s)" % (cm.cstr(k), cm.copt(v, cm.cstr)) for k, v in im["table"]])
    opts = ["OOther"] * len(TOOLS[tool]["extra"]) + c["terms"]
    fx = fx or os.environ.get("VERIF_C09_FIXES", "repaired_code")
    watch = sorted(ids[n] for n, k in fm.items() if k != "dir") + [ids["nowhere.py"]]
    return "run_tool %s %s %s %s %s %s %s 1%%N %s" % (
        fx, tbl, cm.cbool(c["tty"]), cm.clist(opts), cm.clist(args), cm.clist([cm.cstr(a) for a in c["answers"]]),
        cm.clist(nodes), cm.clist([cm.cN(w) for w in watch]))


ERRCLASS = {"badfilename": "bad filename", "eof": "EOFError", "symlink": "SymlinkError", "read": "UnicodeDecodeError"}


def compare(ctx, c, im, mv):
    ids = path_ids(c)
    rev = {v: k for k, v in ids.items()}
    changed_real = sorted(n for n in im["before"] if (im["after"][n] or {}).get("id") != (im["before"][n] or {}).get("id"))
    if not mv["parse"]:
        got = {"rc_nonzero": im["rc"] != 0, "changed": changed_real, "started": im["started"] or []}
        want = {"rc_nonzero": True, "changed": [], "started": []}
        if got != want:
            ctx.disagreement("option parsing fails, nothing is touched", c, got, want)
        return "parse_error"
    # file system
    want_fs, got_fs = {}, {}
    for pid, node in mv["fs"]:
        name = rev[pid]
        if name == "nowhere.py":
            continue
        a, b = im["after"].get(name), im["before"].get(name)
        if node is None:
            want_fs[name] = None
        elif node == "dir":
            want_fs[name] = "dir"
        elif "l" in node:
            want_fs[name] = {"link": rev[node["l"]], "new_inode": False}
        elif "bin" in node:
            want_fs[name] = {"bin": True, "new_inode": node["bin"] >= 1}
        else:
            want_fs[name] = {"bytes": node["f"], "new_inode": node["gen"] >= 1}
        if a is None:
            got_fs[name] = None
        elif "link" in a:
            got_fs[name] = {"link": a["link"], "new_inode": a["id"] != (b or {}).get("id")}
        elif "bytes" in a:
            got_fs[name] = {"bytes": a["bytes"], "new_inode": a["id"] != (b or {}).get("id")}
        elif "bin" in a:
            got_fs[name] = {"bin": True, "new_inode": a["id"] != (b or {}).get("id")}
        else:
            got_fs[name] = "dir"
    fm = flat(c)
    for name, b in im["before"].items():
        if b and "real" in b:
            f = final_of(fm, name)
            if f is not None and b["real"] != f:
                ctx.disagreement("kernel resolution of a symlink vs the tree the model is given", c, {name: b["real"]}, {name: f})
    if got_fs != want_fs:
        ctx.disagreement("files after the run", c, {k: v for k, v in got_fs.items() if want_fs.get(k) != v},
                         {k: v for k, v in want_fs.items() if got_fs.get(k) != v})
    # exit status class
    if (im["rc"] != 0) != (mv["exit"] != 0) or im["rc"] not in (0, 1):
        ctx.disagreement("exit status", c, im["rc"], mv["exit"])
    # problem list
    want_p = []
    for pid, k in mv["errors"]:
        want_p.append([rev[pid], ERRCLASS.get(k, "<rewriter>")])
    got_p = []
    for name, cls in im["diag"]["problems"]:
        got_p.append([canonical(flat(c), name), cls if cls in ERRCLASS.values() else "<rewriter>"])
    if got_p != want_p:
        ctx.disagreement("problem list on stderr", c, got_p, want_p)
    if im["diag"]["symlink_abort"] != mv["fatal"]:
        ctx.disagreement("SystemExit from the symlink policy", c, im["diag"]["symlink_abort"], mv["fatal"])
    # bad file names are printed up front, in reverse argument order
    want_bad = [rev[pid] for pid, k in (mv["errors"] if not mv["fatal"] else []) if k == "badfilename"]
    if not mv["fatal"] and im["diag"]["bad_printed"] != want_bad:
        ctx.disagreement("bad filename messages", c, im["diag"]["bad_printed"], want_bad)
    # the files the loop started on
    if im["started"] is not None:
        want_s = [rev[pid] for pid, _ in mv["log"]]
        got_s = [canonical(flat(c), x) for x in im["started"]]
        if got_s != want_s:
            ctx.disagreement("files processed, in order", c, im["started"], want_s)
    # stdout (when no external diff output is mixed in)
    if "diff" not in mv["actions"] and not c["tty"]:
        exp = []
        interactive = False
        for ev in mv["out"]:
            if ev[0] == "print":
                exp.append(ev[2])
            elif ev[0] == "prompt":
                exp.append(None)
            elif ev[0] == "aborted":
                exp.append("Aborted\n")
        # prompts carry the file name / custom text: match them with a pattern
        pat = "".join(re.escape(x) if x is not None else r"\n[^\n]*\? \[y/N\] " for x in exp)
        if not re.fullmatch(pat, im["stdout"], re.S):
            ctx.disagreement("stdout", c, im["stdout"][-400:], [e if e is None else e[-80:] for e in exp][-8:])
    return "ok"


# ---------------------------------------------------------------------------------------------
# oracle: the property's own reading of the command line, and byte / inode snapshots

def spec_config(c):
    """what the user asked for: policy = last valid --symlinks (default error); actions = those of the
    last action option (default PRINT without a tty, interactive with one); None if an option is malformed"""
    policy = "error"
    actions = ["IFCHANGED", "DIFF", "QUERY", "REPLACE"] if c["tty"] else ["PRINT"]
    for a in c["argv"]:
        if a.startswith("--symlinks="):
            v = a.split("=", 1)[1]
            if v not in SYMVALS:
                return None
            policy = v
        elif a.startswith("--actions="):
            ws = [w.strip().upper().split(":")[0] for w in a.split("=", 1)[1].split(",")]
            if any(w not in ("PRINT", "REPLACE", "IFCHANGED", "QUERY", "DIFF", "EXIT1", "EXECUTE") for w in ws):
                return None
            actions = ws
        elif a in ("-r", "--replace"):
            actions = ["IFCHANGED", "REPLACE"]
        elif a in ("-p", "--print"):
            actions = ["PRINT"]
        elif a in ("-d", "--diff"):
            actions = ["DIFF"]
        elif a in ("-R", "--diff-replace"):
            actions = ["IFCHANGED", "DIFF", "REPLACE"]
        elif a in ("-i", "--interactive"):
            actions = ["IFCHANGED", "DIFF", "QUERY", "REPLACE"]
    return policy, actions


def is_yes_answer(a):
    """the property's reading of an answer: yes iff it starts with y/Y once surrounding blanks are stripped"""
    return a.strip().lower().startswith("y")


def oracle(c, im):
    bad = []
    cfg = spec_config(c)
    before, after = im["before"], im["after"]
    changed = sorted(n for n in before if (after[n] or {}).get("id") != (before[n] or {}).get("id"))
    if im["extra_entries"]:
        bad.append(("replace_needs_go_ahead", "stray directory entries %r" % im["extra_entries"]))
    if cfg is None:
        if changed or im["rc"] == 0:
            bad.append(("noop_cases", "malformed options, yet rc=%r changed=%r" % (im["rc"], changed)))
        return bad
    policy, actions = cfg
    files = flat(c)
    tname = {}                      # canonical name -> the name the tool was given / built while recursing
    table = dict(im["table"])

    def text_of(n):
        """text the tool reads through name n (None: not readable as text / not there)"""
        f = final_of(files, n)
        b = before.get(f) if f is not None else None
        return b.get("bytes") if b else None

    def fails(n):
        """reading or rewriting n raises"""
        t = text_of(n)
        return t is None or table.get(t, "x") is None

    # the expanded argument list, by kind
    argfiles = []
    unusable = []
    for a in c["args"]:
        k = files[a]
        if k == "dir":
            for t in dir_members(files, a):
                cn = canonical(files, t)
                tname.setdefault(cn, t)
                argfiles.append((cn, "link" if is_link_kind(files[cn]) else "reg"))
        elif is_link_kind(k):
            f = final_of(files, a)
            if f is None or before.get(f) is None or ("bytes" not in before[f] and "bin" not in before[f]):
                unusable.append(a)                     # loop, dangling chain
            else:
                argfiles.append((a, "link"))
        elif k in TEXT_KINDS or k == "bin":
            argfiles.append((a, "reg"))
        else:
            unusable.append(a)
    argnames = [n for n, _ in argfiles]
    allowed = set(argnames)
    if policy == "follow":
        allowed |= {final_of(files, n) for n, kd in argfiles if kd == "link"}
    # (1) PRINT/DIFF-only lists: everything byte-identical
    if "REPLACE" not in actions and changed:
        bad.append(("noop_cases", "action list %r has no REPLACE but %r changed" % (actions, changed)))
    # (2) only argument files (or the final targets of followed links) may change
    for n in changed:
        if n not in allowed:
            bad.append(("replace_needs_go_ahead", "%s changed but is neither an argument nor the final target of a followed link" % n))
    # (3) symlink policy: unless the policy is `replace` every symlink of the tree stays the same symlink;
    #     under error/skip the file behind a link argument is untouched (unless named itself)
    for name, kind in files.items():
        if is_link_kind(kind) and policy != "replace":
            a, b = after.get(name), before.get(name)
            if a is None or "link" not in a or a.get("raw") != b.get("raw") or a["id"] != b["id"]:
                clause = "noop_cases" if policy == "follow" else "policy_survives_options"
                bad.append((clause, "symlink %s (-> %s) did not stay the same symlink under --symlinks=%s (argv %r): %r"
                            % (name, b.get("raw"), policy, c["argv"], a)))
    for name, kind in argfiles:
        if kind == "link" and policy in ("error", "skip"):
            tgt = final_of(files, name)
            if tgt in changed and tgt not in argnames:
                bad.append(("policy_survives_options", "target %s of symlink %s changed under --symlinks=%s" % (tgt, name, policy)))
    # (4) a file the reader / rewriter fails on is never changed
    for n in changed:
        b = before[n]
        if b and ("bin" in b or ("bytes" in b and table.get(b["bytes"], "x") is None)):
            bad.append(("noop_cases", "%s cannot be rewritten but was changed" % n))
    if "REPLACE" in actions:
        k = actions.index("REPLACE")
        pre = actions[:k]
        # (5) IFCHANGED ahead of the first REPLACE: an already tidy file keeps its inode
        if "IFCHANGED" in pre:
            for n in changed:
                b = before[n]
                if b and "bytes" in b and table.get(b["bytes"]) == b["bytes"]:
                    bad.append(("noop_cases", "%s is already tidy but was rewritten despite IFCHANGED" % n))
        # (6) QUERY ahead of the first REPLACE and nobody said yes
        if "QUERY" in pre and not any(is_yes_answer(a) for a in c["answers"]) and changed:
            bad.append(("noop_cases", "no answer was a yes but %r changed" % changed))
        # (6b) answer by answer: with regular file arguments and only IFCHANGED / one QUERY ahead of REPLACE the
        #      k-th file that gets asked is rewritten only if the k-th scripted answer is a yes (EOF = no answer)
        if pre.count("QUERY") == 1 and set(pre) <= {"IFCHANGED", "QUERY"} and all(kd == "reg" for _, kd in argfiles):
            answers = list(c["answers"])
            cur = {n: (before[n] or {}).get("bytes") for n in argnames}
            may_change = set()
            for n in argnames:
                t = cur[n]
                go = True
                for a in pre:
                    if a == "IFCHANGED":
                        if t is None or table.get(t, "x") is None or table.get(t) == t:
                            go = False
                            break
                    else:
                        if not answers or not is_yes_answer(answers.pop(0)):
                            go = False
                            break
                if go and t is not None and table.get(t) is not None:
                    may_change.add(n)
                    cur[n] = table[t]
            for n in changed:
                if n not in may_change:
                    bad.append(("noop_cases", "%s was rewritten although the answer it got is not a yes (answers %r, arguments %r)"
                                % (n, c["answers"], argnames)))
    # (7) errors do not stop the run and are reported
    failing = list(unusable)
    if policy == "error":
        failing += [n for n, kd in argfiles if kd == "link"]
    forcing = [a for a in ("PRINT", "REPLACE", "IFCHANGED", "DIFF", "EXECUTE") if a in actions]
    for n, kd in argfiles:
        if fails(n) and forcing and not (kd == "link" and policy in ("error", "skip")):
            first = min(actions.index(a) for a in forcing)
            if not any(a in actions[:first] for a in ("QUERY", "EXIT1")):
                failing.append(n)          # nothing ahead of the first forcing action can stop the file
    if failing:
        if im["rc"] == 0:
            bad.append(("errors_do_not_stop", "failing arguments %r but exit status 0" % failing))
        for n in failing:
            if tname.get(n, n) not in im["stderr_tail"]:
                bad.append(("errors_do_not_stop", "failing argument %s is not named on stderr" % n))
    if actions in (["IFCHANGED", "REPLACE"], ["REPLACE"]):
        # with a plain replace list every changed regular file argument must have been rewritten,
        # wherever it stands relative to failing arguments
        for n, kd in argfiles:
            t = text_of(n)
            if kd == "reg" and t is not None and table.get(t) not in (None, t) and n not in changed:
                bad.append(("errors_do_not_stop", "%s was not processed (arguments %r, failing %r)" % (n, c["args"], failing)))
    return bad


KNOWN = {}


def classify(c):
    cfg = spec_config(c)
    return "%s:%s:%s" % (c["mode"] + ("+tty" if c["tty"] else ""), "malformed" if cfg is None else cfg[0],
                         "replace" if cfg and "REPLACE" in cfg[1] else "noreplace")


def evaluate(ctx, cases, impl):
    exprs, index = [], []
    for ci, (c, im) in enumerate(zip(cases, impl)):
        if "__exc__" in im or "__timeout__" in im:
            continue
        exprs.append(model_expr(c, im))
        index.append(ci)
    model = cm.coq_eval_json(REQ, exprs, shard=60)
    mvs = dict(zip(index, model))
    for ci, (c, im) in enumerate(zip(cases, impl)):
        if ci not in mvs:
            ctx.bump("impl_exception")
            ctx.count(c, False)
            ctx.violation("harness", c, im, stage="machinery")
            continue
        mv = mvs[ci]
        compare(ctx, c, im, mv)
        seen = set()
        for clause, detail in oracle(c, im):
            if clause not in seen:
                seen.add(clause)
                ctx.violation(clause, c, detail)
        ctx.bump(classify(c))
        if mv.get("parse"):
            for _, oc in mv["log"]:
                ctx.bump("outcome:" + (oc if isinstance(oc, str) else "error:" + oc[1]))
        changed = [n for n in im["before"] if (im["after"][n] or {}).get("id") != (im["before"][n] or {}).get("id")]
        nontriv = bool(changed) or im["rc"] != 0
        ctx.count(c, nontriv)
        if nontriv:
            ctx.sample({"argv": c["argv"], "args": c["args"], "files": c["files"], "answers": c["answers"], "rc": im["rc"], "changed": changed}, limit=4)
    return len(exprs)


def run(ctx):
    cm.check_anchors(ctx, ANCHORS)
    thorough = not ctx.quick
    n = (6000 if thorough else 420) * getattr(ctx, "scale", 1)
    ctx.coverage["rule"] = (
        "invocations of bin/tidy-imports (50%), reformat-imports, transform-imports with 0-4 options among --symlinks=error|follow|skip|"
        "replace|bogus, -r/-p/-d/-R/-i, --quiet/--uniform, --actions=<1-4 words incl. lower case, QUERY:prompt, EXECUTE:true, an unknown word>; "
        "1-6 arguments among changed / already-tidy regular files, files failing with different exception classes (SyntaxError, null byte, "
        "RecursionError, invalid UTF-8 = UnicodeDecodeError in the reader), symlinks (1-3 hops, relative and absolute text, into a directory, "
        "ending nowhere, a loop), a missing name, a directory tree (hidden, non-py, __pycache__, nested entries, symlinked *.py entries to targets inside / outside the directory, chained, dangling, a symlinked sub-directory), link texts that pass through a directory symlink and then '..' (with a decoy at the textually normalised path), '.', '//', a trailing '/', the same file twice, 20-60 files in one invocation, and per run two invocations with 255/256/257/512 failing arguments (the 8-bit exit status boundary); 0-6 scripted "
        "answers among y/Yes/n/no/empty/blank/tab/'yes please'/q/... and EOF; 15% QUERY-shaped cases judged answer by answer; ~12% as "
        "unpatched subprocesses (a quarter of "
        "those under a pty = default interactive tuple), the rest in-process through runpy; thorough adds every action tuple of length <= 3 "
        "(with REPLACE) x 4 policies; non-trivial = some inode changed or exit status non-zero; distinct by hash of the case")
    ctx.assumptions += [
        "the tool's rewriting function is an oracle argument: for every text that can occur in the scratch tree it is read off a separate --actions=PRINT run of the real tool",
        "commands run by DIFF / EXECUTE do not touch the files (generator uses pyflyby-diff and `true`)",
        "symlink chains are resolved as the kernel does (at most 40 hops, ELOOP on a loop); directory listings reach the model in sorted(os.listdir) order, sorted by the harness",
        "answers are ASCII; QUERY accepts exactly the answers whose first non-blank character is y or Y",
    ]
    ctx.notes["model_fixes"] = os.environ.get("VERIF_C09_FIXES", "repaired_code")
    cases = list(cm.load_corpus("C09"))
    for i in range(n):
        cases.append(gen_case(cm.rng(ctx.seed, "c09", i), i))
    rr = cm.rng(ctx.seed, "c09", "many")
    sizes = [255, 256, 257, 512, 1024] if thorough else [256, rr.choice([255, 257, 512])]
    for j, nf in enumerate(sizes):
        cases.append(gen_many(rr, 400000 + j, nf))
    if thorough:
        cases += list(exhaustive_cases(ctx.seed))
        ctx.notes["exhaustive"] = "action tuples of length <= 3 x policies x one file of each kind"
    impl = cm.run_impl("c09", "impl_case", cases, timeout_case=180)
    nexpr = evaluate(ctx, cases, impl)
    ctx.notes["model_evaluations_in_kernel"] = nexpr
    ctx.coverage["traces_validated_against_impl"] = nexpr


def replay(payload):
    case = payload.get("case") or payload["disagreements"][0]["case"]
    impl = cm.run_impl("c09", "impl_case", [case], jobs=1, timeout_case=180)
    im = impl[0]
    mv = cm.coq_eval_json(REQ, [model_expr(case, im)])[0] if "__exc__" not in im else None
    print(json.dumps({"case": case, "impl": {k: v for k, v in im.items() if k not in ("table", "contents")},
                      "model": mv, "oracle": oracle(case, im) if mv is not None else None}, indent=1))
    return 0

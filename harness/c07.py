"""C07 - successful auto-import makes code runnable; ambiguity is never guessed.

Shares the universe, the call sequences, the correspondence and the implementation-side runner with
C06 (harness/c06.py); the oracle clauses are C07's: after a True result the snippet is executed
(in a forked copy of the interpreter) and must not raise NameError and find_missing_imports must be
empty; every binding added comes from the unique DB entry of a prefix of a read name or from
`import <prefix spelled in the code>`; a name with >= 2 candidates, or unknown and unimportable, is
not bound, no import is tried for it and the call reports failure."""
from . import c06

ANCHORS = c06.ANCHORS
from .c06 import has_dotted_key, is_class_later, is_dunder_file, has_star_import, is_attrstore, is_f07a, is_f21  # noqa: F401  (classifiers named in known_findings.d/C07.json)


def run(ctx):
    c06.run_shared(ctx, "C07")


def replay(payload):
    return c06.replay_shared(payload, "C07")

"""C18 - import renaming is prefix-exact and keeps local names bound.

Correspondence: Import.replace / the re.sub body substitution / transform_imports (open mode)
against Rename/Replace.v and Rename/WordSub.v.   Oracle: string-level prefix rule + ast re-read."""
import json
import re

from . import common as cm

REQ = ["Rename.Replace", "Rename.WordSub", "Scope.PySyntax", "Scope.PySem", "Rename.Program", "Rename.Wire"]
ANCHORS = ["pyflyby._importstmt:Import.replace", "pyflyby._importstmt:Import.from_parts",
           "pyflyby._imports2s:transform_imports", "pyflyby._imports2s:canonicalize_imports"]

# ---------------------------------------------------------------------------------------------
# generators

ID_CH0 = "ab_"
ID_CH = "ab_1"


def ident(r, lo=1, hi=3):
    return "".join(r.choice(ID_CH) if k else r.choice(ID_CH0) for k in range(r.randint(lo, hi)))


def dotted(r, lo=1, hi=3):
    return ".".join(ident(r) for _ in range(r.randint(lo, hi)))


def gen_map(r):
    n = r.choice([1, 1, 1, 2, 2, 3])
    m = []
    for _ in range(n):
        old = dotted(r)
        if m and r.random() < .5:                    # nested prefixes / string-prefix relations
            base = r.choice(m)[r.randint(0, 1)]
            old = r.choice([base + "." + ident(r), base + "x", base.split(".")[0], base])
        new = dotted(r) if r.random() < .8 else old + r.choice(["", "x", "." + ident(r)])
        if old not in [k for k, _ in m]:
            m.append([old, new])
    return m


def gen_import(r, m):
    old = r.choice(m)[0]
    k = r.random()
    if k < .35:
        full = dotted(r)
    elif k < .85:
        full = old + ("." + dotted(r, 1, 2) if r.random() < .6 else "") + ("x" if r.random() < .2 else "")
    else:
        full = "." * r.randint(1, 2) + old
    as_ = r.choice([full, full.split(".")[-1], ident(r), old.split(".")[0], old])
    return [full, as_]


NONASCII_WORD = "éλ中"
NONASCII_NONWORD = "·—"


def gen_text(r, m, nonascii):
    old = r.choice(m)[0]
    new = r.choice(m)[1]
    toks = []
    for _ in range(r.randint(0, 8)):
        c = [old, old + "x", "x" + old, old + ".q", "z." + old, "(" + old + ")", new, '"' + old + '"',
             ident(r), old + "." + old, old.split(".")[0], "." + old, old + "1", "_" + old,
             old.replace(".", "_"), old.replace(".", "a"), old.replace(".", "("), old.replace(".", " .")]
        if nonascii:
            c += [old + r.choice(NONASCII_WORD), r.choice(NONASCII_WORD) + old,
                  old + r.choice(NONASCII_NONWORD), r.choice(NONASCII_NONWORD) + old]
        toks.append(r.choice(c))
    return r.choice([" ", " ", "+", ", ", "\n"]).join(toks)


def gen_program(r, m):
    """A compilable module: import blocks (top-level), code lines mentioning the names."""
    lines = []
    if r.random() < .3:
        lines.append('"""doc %s"""' % r.choice(m)[0])
    for _ in range(r.randint(1, 4)):
        if r.random() < .6:
            for _ in range(r.randint(1, 3)):
                full, as_ = gen_import(r, m)
                if full.startswith("."):
                    continue
                if "." in full and r.random() < .7:
                    mod, mem = full.rsplit(".", 1)
                    a = as_ if "." not in as_ else mem
                    lines.append("from %s import %s%s" % (mod, mem, "" if a == mem else " as " + a))
                else:
                    a = as_ if "." not in as_ else None
                    lines.append("import %s%s" % (full, "" if (a is None or a == full) else " as " + a))
        for _ in range(r.randint(0, 3)):
            old = r.choice(m)[0]
            lines.append(r.choice([
                "x = %s" % old, "%s.f(1)" % old, "y = '%s'  # %s" % (old, old), "z = %sx" % old.replace(".", "_"),
                "print(q.%s)" % old, "def f(a):\n    return a.%s" % old.split(".")[0], "w = (%s, 2)" % old,
                "if 1:\n    import %s" % old, "# %s %sx" % (old, old)]))
    return "\n".join(lines) + "\n"


def gen_cases(ctx, n):
    cases = []
    for i in range(n):
        r = cm.rng(ctx.seed, "c18", i)
        m = gen_map(r)
        k = i % 10
        if k < 4:
            cases.append({"kind": "replace", "i": i, "map": m, "imp": gen_import(r, m)})
        elif k < 8:
            na = (k == 7)
            cases.append({"kind": "text", "i": i, "map": m, "text": gen_text(r, m, na)})
        elif k < 9:
            via = "canon" if (i % 20 == 18 and all(o != n for o, n in m)) else "transform"
            cases.append({"kind": "program", "via": via, "i": i, "map": m, "src": gen_program(r, m)})
        elif i % 20 == 19:
            cases.append(gen_flat_case(r, i))
        elif i % 40 == 29:
            cases.append(gen_pipeline_case(r, i))
        else:
            xm = gen_exec_map(r)
            hazard = (i % 50 == 9)
            cases.append({"kind": "exec", "i": i, "map": xm, "hazard": hazard, "src": gen_exec_program(r, xm, hazard)})
    return cases


# ---------------------------------------------------------------------------------------------
# execution oracle: programs run before / after transform_imports in an import universe where NEW paths
# denote the same objects as OLD paths

X_OLD_ROOTS = ["pkg", "m", "aa"]
X_NEW_ROOTS = ["zz", "mm", "nn"]
X_SUBS = ["sub", "s2", "qq", "tt"]
X_VALS = ["f", "g", "h", "k"]


def gen_exec_map(r):
    """1-2 entries; OLD under an old root, NEW under a new root (or a sibling of OLD); sometimes nested keys"""
    def path(root, lo, hi):
        return ".".join([root] + [r.choice(X_SUBS) for _ in range(r.randint(lo, hi))])
    roots = r.sample(X_OLD_ROOTS, 2)
    nroots = r.sample(X_NEW_ROOTS, 2)
    old = path(roots[0], 0, 2)
    k = r.random()
    new = path(nroots[0], 0, 2) if k < .75 else old.rsplit(".", 1)[0] + "." + r.choice(["n1", "n2"]) if "." in old else nroots[0]
    m = [[old, new]]
    k = r.random()
    if k < .25:                                         # an independent second entry
        m.append([path(roots[1], 0, 1), path(nroots[1], 0, 1)])
    elif k < .45:                                       # nested keys: a.b -> x together with a.b.c -> y
        ext = [old + "." + r.choice(X_SUBS), path(nroots[1], 0, 1)]
        m = [m[0], ext] if r.random() < .5 else [ext, m[0]]
    return m


def gen_exec_program(r, m, hazard):
    """imports (top level) of / under the OLD paths, then code that reaches OLD only through them"""
    imps, body, pre = [], [], []
    nvar = [0]

    def var():
        nvar[0] += 1
        return "v%d" % nvar[0]

    def use(expr):
        """a few ways to use an expression that denotes a module or a value"""
        k = r.random()
        val = r.choice(X_VALS)
        if k < .3:
            return ["%s = %s.%s(1)" % (var(), expr, val)]
        if k < .5:
            return ["%s.%s.%s" % (expr, val, r.choice(X_VALS))]
        if k < .7:
            fn = "fn%d" % (nvar[0] + 1)
            d = ["def %s(a=None):" % fn, "    return %s.%s" % (expr, val)]
            if r.random() < .5:
                # code IN FRONT OF the first import block that reaches the imported name lazily (called later)
                pre.extend(d)
                return ["%s = %s()" % (var(), fn)]
            return d + ["%s = %s()" % (var(), fn)]
        if k < .85:
            return ["%s = [%s.%s for _i in (1, 2)]" % (var(), expr, val)]
        return ["%s = (%s.%s, 2)" % (var(), expr, val)]

    for old, _new in m:
        for _ in range(r.randint(1, 3)):
            k = r.random()
            if k < .3:                                  # import OLD[.sub]
                p_ = old + ("." + r.choice(X_SUBS) if r.random() < .4 else "")
                imps.append("import %s" % p_)
                body += use(p_ if r.random() < .7 else old)
            elif k < .5:                                # from OLD[.sub] import value [as alias]
                p_ = old + ("." + r.choice(X_SUBS) if r.random() < .3 else "")
                val = r.choice(X_VALS)
                al = val if r.random() < .6 else "al%d" % len(imps)
                imps.append("from %s import %s%s" % (p_, val, "" if al == val else " as " + al))
                body.append("%s = %s(%s)" % (var(), al, r.choice(["1", "'s'", ""])))
            elif k < .7:                                # import OLD as alias
                al = "al%d" % len(imps)
                imps.append("import %s as %s" % (old, al))
                body += use(al)
            elif k < .85 and "." in old:                # from PARENT import LAST [as alias]   (fullname == OLD)
                par, last = old.rsplit(".", 1)
                al = last if r.random() < .5 else "al%d" % len(imps)
                imps.append("from %s import %s%s" % (par, last, "" if al == last else " as " + al))
                body += use(al)
            else:                                       # from OLD import submodule
                sub = r.choice(X_SUBS)
                al = "al%d" % len(imps)
                imps.append("from %s import %s as %s" % (old, sub, al))
                body += use(al)
    if r.random() < .5:
        imps.append(r.choice(["import other.thing", "from other import z", "import other"]))
        body.append(r.choice(["%s = 1" % var(), "pkg_subx = 3", "%s = 'text'" % var()]))
    if hazard:                                          # outside the property's domain (unclaimed stream)
        old = m[0][0]
        root = old.split(".")[0]
        k = r.random()
        if k < .4 and "." in old:
            imps.append("import %s" % root)
            body.append("%s = %s.%s" % (var(), old, r.choice(X_VALS)))
        elif k < .7:
            body += ["def hz():", "    import %s" % old, "    return %s.%s" % (old, r.choice(X_VALS)), "%s = hz()" % var()]
        elif "." in old:
            imps.append("import %s" % old)
            body.append("%s = %s.__name__" % (var(), root))
        else:
            body.append("%s = '%s'" % (var(), old))
    r.shuffle(imps)
    # keep at most two import blocks: some imports first, a statement, the rest
    cut = r.randint(0, len(imps))
    if pre and r.random() < .3:
        pre = ['"""module docstring"""'] + pre
    lines = pre + imps[:cut] + (["_sep = 0"] if 0 < cut < len(imps) else []) + imps[cut:] + body
    return "\n".join(lines) + "\n"


def gen_pipeline_case(r, i):
    """the tool pipeline `tidy-imports --transform OLD=NEW` = transform_imports, then fix_unused_and_missing_imports with
    remove_unused, on a half-migrated file: the OLD spelling is imported and USED, the NEW spelling is already imported
    beside it and UNUSED (or used as well); every rewritten import must keep binding the local name the code uses"""
    oroot, nroot = r.choice(X_OLD_ROOTS), r.choice(X_NEW_ROOTS)
    omod = ".".join([oroot] + [r.choice(X_SUBS) for _ in range(r.randint(0, 1))])
    nmod = ".".join([nroot] + [r.choice(X_SUBS) for _ in range(r.randint(0, 1))])
    lines, body = [], []
    k = r.random()
    if k < .6:                                           # member-level rename  OLDPKG.old -> NEWPKG.new
        old, new = r.sample(X_VALS, 2) if r.random() < .7 else [X_VALS[0], X_VALS[0]]
        m = [[omod + "." + old, nmod + "." + new]]
        al = old if r.random() < .7 else "al1"
        lines.append("from %s import %s%s" % (omod, old, "" if al == old else " as " + al))
        nl = new if r.random() < .7 else "al2"
        lines.append("from %s import %s%s" % (nmod, new, "" if nl == new else " as " + nl))
        body.append("v1 = %s(1)" % al)
        if r.random() < .3:
            body.append("v2 = %s.h" % nl)                # the NEW spelling is used too
    else:                                                # module-level rename, aliased module imports
        m = [[omod, nmod]]
        lines.append("import %s as al1" % omod)
        lines.append(r.choice(["import %s as al2" % nmod, "from %s import %s" % (nmod, r.choice(X_VALS))]))
        body.append("v1 = al1.%s(1)" % r.choice(X_VALS))
        if r.random() < .3:
            body.append("def fn1(a=None):\n    return al1.k\nv2 = fn1()")
    if r.random() < .5:
        lines.append(r.choice(["import other.thing", "from other import z"]))     # unused, unrelated
    r.shuffle(lines)
    return {"kind": "exec", "i": i, "map": m, "hazard": False, "pipeline": r.choice(["api", "api", "cli"]),
            "src": "\n".join(lines + body) + "\n"}


def run_aliased(src, m):
    """execute src under the aliasing universe; returns the observables"""
    import importlib
    import importlib.abc
    import importlib.machinery
    import sys
    import types
    log = []
    inv = [(new, old) for old, new in m]

    def canon(name):
        for _ in range(4):
            for new, old in sorted(inv, key=lambda p: -len(p[0])):
                if name == new or name.startswith(new + "."):
                    name = old + name[len(new):]
                    break
            else:
                break
        return name

    class V:
        def __init__(s, tag):
            object.__setattr__(s, "_tag", tag)
        def __getattr__(s, n):
            if n.startswith("__"):
                raise AttributeError(n)
            log.append([s._tag, "." + n])
            return V(s._tag + "." + n)
        def __call__(s, *a, **k):
            log.append([s._tag, "(%d)" % len(a)])
            return V(s._tag + "()")

    class VMod(types.ModuleType):
        def __getattr__(s, n):
            if n.startswith("__") or n in X_SUBS or n in ("n1", "n2", "thing"):
                raise AttributeError(n)        # a submodule that nothing imported: as a real package
            return V(canon(s.__name__ + "." + n))

    roots = set(X_OLD_ROOTS + X_NEW_ROOTS + ["other"])

    class Finder(importlib.abc.MetaPathFinder, importlib.abc.Loader):
        def find_spec(self, name, path=None, target=None):
            if name.split(".")[0] in roots:
                return importlib.machinery.ModuleSpec(name, self, is_package=True)
        def create_module(self, spec):
            mod = VMod(spec.name)
            mod.__path__ = []
            return mod
        def exec_module(self, module):
            pass

    def tag(v):
        if isinstance(v, V):
            return "V:" + v._tag
        if isinstance(v, VMod):
            return "M:" + canon(v.__name__)
        if isinstance(v, (list, tuple)):
            return [tag(x) for x in v]
        if isinstance(v, types.FunctionType):
            return "func"
        return repr(v)

    g = {"__name__": "prog"}
    finder = Finder()
    saved = set(sys.modules)
    sys.meta_path.insert(0, finder)
    exc = None
    try:
        try:
            exec(compile(src, "<p>", "exec"), g)
        except BaseException as e:
            exc = type(e).__name__ + ": " + str(e)[:100]
        skip = roots | {"__name__", "__builtins__"}
        fin = {k: tag(v) for k, v in g.items() if k not in skip and not k.startswith("__")}
        return {"exc": exc, "log": log[:500], "final": fin}
    finally:
        sys.meta_path.remove(finder)
        for k in set(sys.modules) - saved:
            del sys.modules[k]


# ---------------------------------------------------------------------------------------------
# module-level programs as terms (closed mode for Rename/Program.v): rendered to Python, renamed by the real
# transform_imports and executed; the model renames the term and resolves every read (PySem)

F_NAMES = ["pkg", "m", "aa", "zz", "mm", "other", "sub", "s2", "qq", "tt", "f", "g", "h", "k", "t1", "t2", "t3", "al1", "al2", "al3"]
F_ID = {n: 10 + 7 * k for k, n in enumerate(F_NAMES)}


def gen_flat_case(r, i):
    roots_old, roots_new = ["pkg", "m", "aa"], ["zz", "mm"]
    subs, vals = ["sub", "s2", "qq", "tt"], ["f", "g", "h", "k"]
    old = [r.choice(roots_old)] + [r.choice(subs) for _ in range(r.choice([0, 1, 1, 2]))]
    k = r.random()
    new = ([r.choice(roots_new)] + [r.choice(subs) for _ in range(r.choice([0, 1, 1]))]) if k < .8 else old[:-1] + ["qq" if old[-1] != "qq" else "tt"]
    if new == old:
        new = ["zz"]
    stmts = []
    aliases = []
    plain = []
    ln = 0
    for _ in range(r.randint(2, 7)):
        ln += 1
        k = r.random()
        if k < .22:                                      # import a.b[.c]
            d = (old + [r.choice(subs)] if r.random() < .3 else old) if r.random() < .7 else \
                r.choice([[old[0]], ["other"], old[:-1] + ["s2"], [old[0], "tt"]])
            d = [x for x in d if x]
            stmts.append(["import", ln, [[d, None]]])
            plain.append(d)
        elif k < .32:                                    # import a.b as c
            d = old if r.random() < .7 else ["other", "sub"]
            a = r.choice(["al1", "al2", "al3"])
            stmts.append(["import", ln, [[d, a]]])
            aliases.append(a)
        elif k < .52:                                    # from a.b import x [as y]
            m_ = old if r.random() < .6 else (old[:-1] if len(old) > 1 and r.random() < .7 else ["other"])
            x = r.choice(vals) if (m_ == old or r.random() < .5) else (old[-1] if m_ == old[:-1] else r.choice(subs))
            a = None if r.random() < .5 else r.choice(["al1", "al2", "al3"])
            stmts.append(["from", ln, m_, [[x, a]]])
            aliases.append(a or x)
        elif k < .62:
            t = r.choice(["t1", "t2", "t3"])
            stmts.append(["assign", ln, t, gen_loads(r, old, plain, aliases + [t])])
            aliases.append(t)
        else:
            stmts.append(["expr", ln, gen_loads(r, old, plain, aliases)])
    return {"kind": "flat", "i": i, "old": old, "new": new, "stmts": stmts}


def gen_loads(r, old, plain, names):
    out = []
    for _ in range(r.randint(1, 3)):
        k = r.random()
        if k < .45 and plain:
            d = r.choice(plain)
            out.append([d[0], d[1:] + [r.choice(["f", "g"])]])
        elif k < .6:
            out.append([old[0], old[1:] + [r.choice(["f", "h"])]])        # may be unbound: outside the domain
        elif k < .7:
            out.append([old[0], [r.choice(["f", "tt"])]])                 # the root of OLD, not through OLD
        elif names:
            out.append([r.choice(names), [r.choice(["f", "k"])] if r.random() < .5 else []])
        else:
            out.append(["other", []])
    return out


def render_flat(stmts):
    lines = []
    for st in stmts:
        if st[0] == "import":
            lines.append("import " + ", ".join(".".join(d) + ("" if a is None else " as " + a) for d, a in st[2]))
        elif st[0] == "from":
            lines.append("from %s import %s" % (".".join(st[2]), ", ".join(x + ("" if a is None else " as " + a) for x, a in st[3])))
        else:
            loads = st[3] if st[0] == "assign" else st[2]
            e = "(" + ", ".join(".".join([n] + at) for n, at in loads) + ",)"
            lines.append(("%s = %s" % (st[2], e)) if st[0] == "assign" else e)
    return "\n".join(lines) + "\n"


def run_permissive(src):
    """every import succeeds, every attribute exists: only unbound global names are observed (in order)"""
    import importlib.abc
    import importlib.machinery
    import sys
    import types

    class V:
        def __getattr__(s, n):
            if n.startswith("__"):
                raise AttributeError(n)
            return V()

    class VMod(types.ModuleType):
        def __getattr__(s, n):
            if n.startswith("__"):
                raise AttributeError(n)
            return V()

    class Finder(importlib.abc.MetaPathFinder, importlib.abc.Loader):
        def find_spec(self, name, path=None, target=None):
            if name.split(".")[0] in F_NAMES:
                return importlib.machinery.ModuleSpec(name, self, is_package=True)
        def create_module(self, spec):
            mod = VMod(spec.name)
            mod.__path__ = []
            return mod
        def exec_module(self, module):
            pass

    unbound = []

    class G(dict):
        def __missing__(s, key):
            import builtins
            if key in builtins.__dict__:
                raise KeyError(key)
            unbound.append(key)
            return V()

    finder = Finder()
    saved = set(sys.modules)
    sys.meta_path.insert(0, finder)
    try:
        try:
            exec(compile(src, "<p>", "exec"), G({"__name__": "prog"}))
        except SyntaxError:
            return None
        except Exception as e:
            return {"exc": type(e).__name__ + ": " + str(e)[:80]}
        return {"unbound": unbound}
    finally:
        sys.meta_path.remove(finder)
        for k in set(sys.modules) - saved:
            del sys.modules[k]


def c_dotted(d):
    return "[" + "; ".join(cm.cN(F_ID[x]) for x in d) + "]"


def c_flat_program(stmts):
    out = []
    for st in stmts:
        ln = cm.cnat(st[1])
        if st[0] == "import":
            out.append("SImport %s [%s]" % (ln, "; ".join("(%s, %s)" % (c_dotted(d), cm.copt(a, lambda x: cm.cN(F_ID[x]))) for d, a in st[2])))
        elif st[0] == "from":
            out.append("SImportFrom %s %s [%s]" % (ln, c_dotted(st[2]), "; ".join("(%s, %s)" % (cm.cN(F_ID[x]), cm.copt(a, lambda y: cm.cN(F_ID[y]))) for x, a in st[3])))
        else:
            loads = st[3] if st[0] == "assign" else st[2]
            e = "(EOp [%s])" % "; ".join("ELoad %s %s" % (cm.cN(F_ID[n]), c_dotted(at)) for n, at in loads)
            out.append(("SAssign %s [TName %s] %s" % (ln, cm.cN(F_ID[st[2]]), e)) if st[0] == "assign" else "SExpr %s %s" % (ln, e))
    return "[" + "; ".join(out) + "]"


# ---------------------------------------------------------------------------------------------
# implementation side (runs in a worker process with pyflyby from REPO)

def impl_case(c):
    from pyflyby._importstmt import Import
    m = dict((k, v) for k, v in c.get("map", []))
    if c["kind"] == "replace":
        imp = Import.from_parts(*c["imp"])
        for k, v in m.items():
            imp = imp.replace(k, v)
        return {"imp": [imp.fullname, imp.import_as]}
    if c["kind"] == "text":
        # the body substitution is a closure of transform_imports: reach it through a module
        # made of one string-literal-free expression statement?  No: arbitrary text is not
        # Python.  Put the text inside a comment block, which transform_block sees verbatim.
        from pyflyby._imports2s import transform_imports
        from pyflyby._parse import PythonBlock
        body = "".join("#" + l + "\n" for l in c["text"].split("\n"))
        out = transform_imports(PythonBlock(body), m)
        return {"text": out.text.joined, "wordchars": wordchars(c["text"])}
    if c["kind"] == "program":
        import pyflyby._imports2s as S
        from pyflyby._parse import PythonBlock
        t = S.SourceToSourceFileImportsTransformation(PythonBlock(c["src"]))
        blocks = []
        for b in t.blocks:
            if isinstance(b, S.SourceToSourceImportBlockTransformation):
                blocks.append({"imports": [[i.fullname, i.import_as] for i in b.importset.imports]})
            else:
                blocks.append({"text": b.input.text.joined})
        renders = []
        orig = S.SourceToSourceImportBlockTransformation.pretty_print

        def pp(self, params=None):
            res = orig(self, params=params)
            renders.append({"imports": [[i.fullname, i.import_as] for i in self.importset.imports], "text": str(res)})
            return res
        S.SourceToSourceImportBlockTransformation.pretty_print = pp
        order = [[k, v] for k, v in m.items()]
        try:
            if c.get("via") == "canon":
                # through __canonical_imports__ of a database; the order in which a multi-entry map is
                # applied is whatever ImportMap.items() yields: an oracle argument of the model
                from pyflyby._importdb import ImportDB
                db = ImportDB("__canonical_imports__ = %r\n" % (m,))
                order = [[k, v] for k, v in db.canonical_imports.items()]
                out = S.canonicalize_imports(PythonBlock(c["src"]), db=db)
            else:
                out = S.transform_imports(PythonBlock(c["src"]), m)
        finally:
            S.SourceToSourceImportBlockTransformation.pretty_print = orig
        return {"blocks": blocks, "renders": renders, "out": out.text.joined, "wordchars": wordchars(c["src"]),
                "order": order}
    if c["kind"] == "flat":
        import pyflyby._imports2s as S
        from pyflyby._parse import PythonBlock
        src = render_flat(c["stmts"])
        try:
            out = S.transform_imports(PythonBlock(src), {".".join(c["old"]): ".".join(c["new"])}).text.joined
        except Exception as e:
            return {"src": src, "out": None, "error": type(e).__name__}
        return {"src": src, "out": out, "before": run_permissive(src), "after": run_permissive(out)}
    if c["kind"] == "exec":
        import pyflyby._imports2s as S
        from pyflyby._parse import PythonBlock
        before = run_aliased(c["src"], c["map"])
        try:
            if c.get("pipeline") == "api":
                blk = S.transform_imports(PythonBlock(c["src"]), m)
                out = S.fix_unused_and_missing_imports(blk, add_missing=False, remove_unused=True, add_mandatory=False).text.joined
            elif c.get("pipeline") == "cli":
                import os
                import shutil
                import tempfile
                from harness.c11 import run_cli
                d = tempfile.mkdtemp(prefix="verif-c18cli-")
                try:
                    with open(os.path.join(d, "t.py"), "w") as fh:
                        fh.write(c["src"])
                    argv = ["--print", "--no-add"] + ["--transform=%s=%s" % (k_, v_) for k_, v_ in c["map"]] + ["t.py"]
                    code, out, err = run_cli(os.path.join(os.environ.get("VERIF_REPO", "/repo"), "bin", "tidy-imports"), argv, d)
                finally:
                    shutil.rmtree(d, ignore_errors=True)
                if code != 0:
                    return {"before": before, "out": None, "error": "tidy-imports exited with %r: %s" % (code, err)}
            else:
                out = S.transform_imports(PythonBlock(c["src"]), m).text.joined
        except Exception as e:
            return {"before": before, "out": None, "error": type(e).__name__ + ": " + str(e)[:100]}
        after = run_aliased(out, c["map"])
        return {"before": before, "out": out, "after": after}
    raise ValueError(c["kind"])


def wordchars(text):
    """The regex engine's \\w on the non-ASCII characters of the text (oracle argument W)."""
    return sorted({ch for ch in text if ord(ch) > 127 and re.match(r"\w", ch)})


# ---------------------------------------------------------------------------------------------
# model side

def c_map(m):
    return cm.clist([cm.cpair(cm.cstr(k), cm.cstr(v)) for k, v in m])


def model_exprs(cases, impl):
    """Gallina expressions, one list per case (a case may need several evaluations)."""
    exprs, index = [], []
    for ci, (c, im) in enumerate(zip(cases, impl)):
        if "__exc__" in im or "__timeout__" in im:
            continue
        if c["kind"] == "replace":
            exprs.append("run_replace %s %s %s" % (c_map(c["map"]), cm.cstr(c["imp"][0]), cm.cstr(c["imp"][1])))
            index.append((ci, "imp", None))
        elif c["kind"] == "text":
            body = "".join("#" + l + "\n" for l in c["text"].split("\n"))
            w = cm.clist([cm.cN(ord(x)) for x in im["wordchars"]])
            exprs.append("run_text %s %s %s" % (w, c_map(c["map"]), cm.cstr(body)))
            index.append((ci, "text", None))
        elif c["kind"] == "exec":
            continue                                    # oracle only (the same pipeline is tied by the program kind)
        elif c["kind"] == "flat":
            exprs.append("run_rename_flat %s %s %s" % (c_dotted(c["old"]), c_dotted(c["new"]), c_flat_program(c["stmts"])))
            index.append((ci, "flat", None))
        else:
            w = cm.clist([cm.cN(ord(x)) for x in im["wordchars"]])
            mp = c_map(im.get("order", c["map"]))
            for bi, b in enumerate(im["blocks"]):
                if "text" in b:
                    exprs.append("run_text %s %s %s" % (w, mp, cm.cstr(b["text"])))
                    index.append((ci, "btext", bi))
                else:
                    for ii, (f, a) in enumerate(b["imports"]):
                        exprs.append("run_replace %s %s %s" % (mp, cm.cstr(f), cm.cstr(a)))
                        index.append((ci, "bimp", (bi, ii)))
    return exprs, index


# ---------------------------------------------------------------------------------------------
# oracle: the property's own predicate, independent of the model

def expected_by_string_rule(full, as_, old, new):
    """'dotted path is OLD or begins with OLD followed by a dot' - on plain strings."""
    if full == old or full.startswith(old + "."):
        nf = new + full[len(old):]
        if as_ == old or as_.startswith(old + "."):
            return nf, new + as_[len(old):]
        return nf, as_
    return full, as_


def oracle_replace(c, im):
    f, a = c["imp"]
    for old, new in c["map"]:
        f, a = expected_by_string_rule(f, a, old, new)
    if [f, a] != im["imp"]:
        return "Import.replace chain gives %r, the prefix rule gives %r" % (im["imp"], [f, a])
    return None


def toplevel_imports(src):
    """(fullname, local name) of every top-level import statement, read with stdlib ast."""
    import ast
    res = []
    for node in ast.parse(src).body:
        if isinstance(node, ast.Import):
            for a in node.names:
                res.append((a.name, a.asname or a.name))
        elif isinstance(node, ast.ImportFrom):
            mod = "." * node.level + (node.module or "")
            for a in node.names:
                res.append((mod + ("" if mod.endswith(".") or not mod else ".") + a.name, a.asname or a.name))
    return res


def oracle_program(src, out, order):
    """Exactly the imports whose path is OLD / OLD.x are rewritten, the others are untouched, local names kept."""
    try:
        before, after = toplevel_imports(src), toplevel_imports(out)
    except SyntaxError:
        # an alias equal to a one-component OLD renamed to a dotted NEW gives `... as a.b`: compilability of
        # the output is property C03's clause, not C18's; counted, not judged here
        return "unparsable"
    want, shadowed = [], []
    for k, (f, a) in enumerate(before):
        a0 = a
        for old, new in order:
            f, a = expected_by_string_rule(f, a, old, new)
        want.append((f, a))
        # ImportSet(ignore_shadowed=True): an import whose local name is bound again by another import of
        # its block is dropped before the rename; that is reformatting (C02/C03), not renaming
        if any(a0 == a2 for j, (_, a2) in enumerate(before) if j != k):
            shadowed.append((f, a))
    names = {a for _, a in after}
    extra = [x for x in after if x not in want]
    lost = [x for x in want if x not in after and x[1] not in names and x not in shadowed]
    if extra or lost:
        return "top-level imports after the rename: unexpected %r, lost %r" % (extra, lost)
    return None


def oracle_text(text, out, m, wc):
    """whole-word rule re-stated with Python string operations only (no re)."""
    def isw(ch):
        return ch.isalnum() or ch == "_" if ord(ch) < 128 else ch in wc
    def bnd(x, y):
        return (x is not None and isw(x)) != (y is not None and isw(y))
    s = text
    for old, new in m:
        res, i, n = [], 0, len(old)
        while i < len(s):
            if s.startswith(old, i) and bnd(s[i - 1] if i else None, old[0]) \
               and bnd(old[-1], s[i + n] if i + n < len(s) else None):
                res.append(new)
                i += n
            else:
                res.append(s[i])
                i += 1
        s = "".join(res)
    return None if s == out else "body substitution differs from the whole-word rule: %r vs %r" % (out, s)


def root_of_old_read_outside_old(c):
    """classifier of the known finding C18-a: the program has a plain `import P` with P at/under a dotted OLD, and
    reads the root package of that OLD through a path that is not at/under that OLD"""
    lines = c["src"].split("\n")
    plains = [l.split()[1] for l in lines if l.startswith("import ") and " as " not in l]
    body = "\n".join(l for l in lines if not l.startswith(("import ", "from ")))
    for old, _new in c["map"]:
        oc = old.split(".")
        if len(oc) < 2 or not any(p_.split(".")[:len(oc)] == oc for p_ in plains):
            continue
        for m_ in re.finditer(r"(?<![\w.])%s((?:\.\w+)*)" % re.escape(oc[0]), body):
            path = [oc[0]] + [x for x in m_.group(1).split(".") if x]
            if path[:len(oc)] != oc:
                return True
    return False


def oracle_exec(ctx, c, im):
    """behaviour clause: a program that reaches OLD only through matching top-level imports, run where NEW denotes
    the same objects as OLD, performs the same operations on the same objects and leaves the same values"""
    b = im["before"]
    if c.get("hazard"):
        # outside the property's domain (DESIGN: domain note): recorded, never a violation
        a = im.get("after")
        same = a is not None and a["exc"] == b["exc"] and a["log"] == b["log"] and a["final"] == b["final"]
        ctx.bump("exec:hazard_stream:" + ("same" if same else "differs"))
        return None
    if b["exc"] is not None:
        ctx.bump("exec:discarded(original raises)")
        return None
    if im.get("out") is None:
        return "transform_imports raised %s" % im.get("error")
    a = im["after"]
    ctx.bump("exec:in_domain" + (":pipeline:" + c["pipeline"] if c.get("pipeline") else ""))
    if (a["exc"] or "").startswith("NameError") and root_of_old_read_outside_old(c):
        ctx.known_hit("C18-a", "behaviour clause: a plain `import OLD[.x]` with a dotted OLD becomes `import NEW[.x]` and stops binding the "
                               "root package of OLD; other references through that root (e.g. `pkg.k` next to `import pkg.sub`, or a "
                               "reference rewritten by another entry for a shorter key) become unbound: %s" % a["exc"])
        ctx.bump("known:C18-a")
        return None
    if a["exc"] is not None:
        return "the renamed program raises %s; before: no exception.  output:\n%s" % (a["exc"], im["out"])
    if a["log"] != b["log"]:
        return "operations on imported objects differ: %r vs %r\noutput:\n%s" % (b["log"][:8], a["log"][:8], im["out"])
    bf = b["final"]
    if c.get("pipeline"):
        # the pipeline also removes unused imports: names that disappeared must be imports nothing reads (the program
        # still runs - checked above); every computed value (v*, fn*) must still be there and every remaining name equal
        lost = [k for k in bf if k not in a["final"]]
        if any(re.match(r"(v|fn)\d+$", k) for k in lost):
            return "computed values lost: %r\noutput:\n%s" % (lost, im["out"])
        bf = {k: v for k, v in bf.items() if k in a["final"]}
    if a["final"] != bf:
        return "final values differ: %r vs %r\noutput:\n%s" % (b["final"], a["final"], im["out"])
    return None


# ---------------------------------------------------------------------------------------------

def compare(ctx, cases, impl, exprs, index, model):
    per_case = {}
    for (ci, tag, sub), mv in zip(index, model):
        per_case.setdefault(ci, []).append((tag, sub, mv))
    for ci, (c, im) in enumerate(zip(cases, impl)):
        nontriv = False
        if "__exc__" in im or "__timeout__" in im:
            # transform_imports must not fail on a compilable module (C03 clause); here: harness-level report
            ctx.bump("impl_exception")
            ctx.count(c, False)
            if c["kind"] != "program":
                ctx.violation("no_internal_error", c, im)
            else:
                ctx.bump("program_exception:" + im.get("__exc__", "timeout"))
            continue
        if c["kind"] == "replace":
            (_, _, mv), = per_case[ci]
            if mv != im["imp"]:
                ctx.disagreement("Import.replace", c, im["imp"], mv)
            msg = oracle_replace(c, im)
            if msg:
                ctx.violation("replace_iff_component_prefix", c, msg)
            nontriv = im["imp"] != c["imp"]
            ctx.bump("replace_changed" if nontriv else "replace_unchanged")
        elif c["kind"] == "flat":
            (_, _, mv), = per_case[ci]
            names = {v: k for k, v in F_ID.items()}
            if im.get("out") is None or im["after"] is None or "exc" in (im["after"] or {}) or "exc" in (im["before"] or {}):
                ctx.bump("flat:output_not_runnable(C03 domain)")
            else:
                want_b = [names[x] for x in mv["unbound_before"]]
                want_a = [names[x] for x in mv["unbound_after"]]
                if im["before"]["unbound"] != want_b:
                    ctx.disagreement("PySem vs CPython (unbound names of the program)", c, im["before"], want_b)
                if im["after"]["unbound"] != want_a:
                    ctx.disagreement("rename_program + PySem vs transform_imports + CPython (unbound names after the rename)",
                                     c, {"out": im["out"], "unbound": im["after"]["unbound"]}, want_a)
                if mv["in_domain"] and mv["trace_after"] != mv["renamed_trace"]:
                    ctx.disagreement("model: behaviour_preserved_flat on an in-domain program", c, mv["renamed_trace"], mv["trace_after"])
                ctx.bump("flat:in_domain" if mv["in_domain"] else "flat:outside_domain")
                if not mv["in_domain"] and im["after"]["unbound"] != im["before"]["unbound"]:
                    ctx.bump("flat:outside_domain:new_unbound_names")
                nontriv = im["out"] != im["src"]
        elif c["kind"] == "exec":
            msg = oracle_exec(ctx, c, im)
            if msg:
                ctx.violation("behaviour_preserved", c, msg)
            nontriv = im.get("out") is not None and im["before"]["exc"] is None and bool(im["before"]["log"])
        elif c["kind"] == "text":
            (_, _, mv), = per_case[ci]
            if mv != im["text"]:
                ctx.disagreement("transform_block (re.sub)", c, im["text"], mv)
            body = "".join("#" + l + "\n" for l in c["text"].split("\n"))
            msg = oracle_text(body, im["text"], c["map"], im["wordchars"])
            if msg:
                ctx.violation("wordsub_exact", c, msg)
            nontriv = im["text"] != body
            ctx.bump("text_changed" if nontriv else "text_unchanged")
        else:
            pred = []
            k = 0
            ok = True
            got = {(tag, sub if not isinstance(sub, list) else tuple(sub)): mv for tag, sub, mv in per_case.get(ci, [])}
            for bi, b in enumerate(im["blocks"]):
                if "text" in b:
                    pred.append(got[("btext", bi)])
                else:
                    if k >= len(im["renders"]):
                        ok = False
                        break
                    rend = im["renders"][k]
                    k += 1
                    want = [got[("bimp", (bi, ii))] for ii in range(len(b["imports"]))]
                    have = rend["imports"]
                    # ImportSet(..., ignore_shadowed=True): every rendered import is a transformed one,
                    # every transformed one is rendered or shadowed by a same-named one
                    names = {a for _, a in have}
                    if any(h not in want for h in have) or any((w not in have) and (w[1] not in names) for w in want):
                        ctx.disagreement("transform_import over a block", c, have, want)
                    pred.append(rend["text"])
            if not ok or "".join(pred) != im["out"]:
                ctx.disagreement("transform_imports output text", c, im["out"], "".join(pred))
            msg = oracle_program(c["src"], im["out"], im.get("order", c["map"]))
            if msg == "unparsable":
                ctx.bump("program_output_unparsable(C03 domain)")
            elif msg:
                ctx.violation("replace_iff_component_prefix(program)", c, msg)
            nontriv = any("imports" in b for b in im["blocks"])
            if sorted(map(tuple, im.get("order", c["map"]))) != sorted(map(tuple, c["map"])):
                ctx.disagreement("canonical map entries", c, im.get("order"), c["map"])
            ctx.bump("program:" + c.get("via", "transform"))
        ctx.count(c, nontriv)
        if nontriv:
            ctx.sample({"case": c, "impl": im})


def run(ctx):
    cm.check_anchors(ctx, ANCHORS)
    n = (2500 if ctx.quick else 60000) * ctx.scale
    ctx.coverage["rule"] = ("cases from one seeded PRNG: 40% Import.replace chains, 40% body texts (10% with non-ASCII "
                            "word/non-word neighbours), 10% whole modules through transform_imports / canonicalize_imports, 10% programs executed "
                            "before/after transform_imports under an aliasing import universe (2% of them in the hazard stream); non-trivial = the "
                            "implementation changed the import / text, or the module has an import block; distinct by hash of the case")
    ctx.assumptions += [
        "re's \\w on the non-ASCII characters of each text is an oracle argument (taken from the real engine on the run)",
        "open mode for whole modules: block decomposition and the rendering of import blocks are captured from the implementation (M2-M6 are tied by C01/C03/C11)",
    ]
    cases = cm.load_corpus("C18") + gen_cases(ctx, n)
    impl = cm.run_impl("c18", "impl_case", cases)
    exprs, index = model_exprs(cases, impl)
    model = cm.coq_eval_json(REQ, exprs, shard=400)
    compare(ctx, cases, impl, exprs, index, model)
    ctx.notes["model_evaluations_in_kernel"] = len(exprs)


def replay(payload):
    case = payload.get("case") or payload["disagreements"][0]["case"]
    impl = cm.run_impl("c18", "impl_case", [case], jobs=1)
    exprs, index = model_exprs([case], impl)
    model = cm.coq_eval_json(REQ, exprs)
    print(json.dumps({"case": case, "impl": impl[0], "model": model}, indent=1))
    return 0

#!/bin/bash
# usage: apply_fix.sh <fixes/X.diff> <pytest targets...>  - apply to /repo, run targeted tests, commit "fix: ..."
set -u
F=$(realpath $1); shift
MSG=$(head -1 $F | sed 's/^# *//')
cd /repo || exit 2
git apply --check $F 2>/dev/null || git apply --check -3 $F || { echo "DOES NOT APPLY: $F"; exit 2; }
git apply $F || git apply -3 $F
if [ $# -gt 0 ]; then
  env -u PYFLYBY_PATH timeout 2400 /venv/bin/python -m pytest -q -p no:cacheprovider -x -n 6 "$@" 2>&1 | tail -4
fi
git add -A && git commit -q -m "$MSG" && git log --oneline -1

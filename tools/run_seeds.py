#!/usr/bin/env python3
"""Run seeded mutants against the checks.  usage: run_seeds.py <srcdir> [ids...]
For each <srcdir>/<Cxx-mN>/ (patch.diff, demo.py, meta.json): make a scratch worktree of /repo, confirm the demo
passes on the clean tree and fails on the patched one, run ./check Cxx quick with VERIF_REPO=<patched>, and store
patch, demo and an updated meta.json under /verif/seeded/<Cxx-mN>/ ."""
import json, os, re, shutil, subprocess, sys, tempfile
from concurrent.futures import ThreadPoolExecutor

SRC = sys.argv[1]
ids = sys.argv[2:] or sorted(os.listdir(SRC))

def sh(cmd, **kw):
    p = subprocess.run(cmd, shell=True, stdout=subprocess.PIPE, stderr=subprocess.STDOUT, text=True, **kw)
    return p.returncode, p.stdout

def one(sid):
    d = os.path.join(SRC, sid)
    prop = sid.split("-")[0]
    wt = tempfile.mkdtemp(prefix="seedwt-")
    os.rmdir(wt)
    res = {"id": sid}
    try:
        rc, out = sh("git -C /repo worktree add -q %s HEAD" % wt)
        env = dict(os.environ, PYTHONPATH=wt + "/lib/python")
        res["demo_clean_exit"] = sh("timeout 600 /venv/bin/python %s/demo.py" % d, cwd=wt, env=env)[0]
        rc, out = sh("git apply %s/patch.diff" % d, cwd=wt)
        if rc != 0:
            res["error"] = "patch does not apply to current /repo HEAD: " + out[-300:]
            return res
        res["demo_patched_exit"] = sh("timeout 600 /venv/bin/python %s/demo.py" % d, cwd=wt, env=env)[0]
        env2 = dict(os.environ, VERIF_REPO=wt, VERIF_JOBS="6", VERIF_EVIDENCE_DIR=wt + "-evidence")
        rc, out = sh("timeout 3000 ./check %s quick" % prop, cwd="/verif", env=env2)
        res["check_exit"] = rc
        res["check_violation_lines"] = len(re.findall(r"^VIOLATION ", out, re.M))
        res["no_failing_input_found"] = "no-failing-input-found" in out
        m = re.search(r"disagreements (\d+), violations (\d+)", out)
        if m:
            res["disagreements"], res["violations"] = int(m.group(1)), int(m.group(2))
        res["summary_line"] = out.strip().split("\n")[-1][-300:]
    finally:
        sh("git -C /repo worktree remove --force %s" % wt)
        shutil.rmtree(wt + "-evidence", ignore_errors=True)
    return res

with ThreadPoolExecutor(max_workers=3) as ex:
    results = list(ex.map(one, ids))
for r in results:
    sid = r["id"]
    d = os.path.join(SRC, sid)
    out = os.path.join("/verif/seeded", sid)
    os.makedirs(out, exist_ok=True)
    for f in ("patch.diff", "demo.py", "patch.orig.diff"):
        if os.path.exists(os.path.join(d, f)):
            shutil.copy(os.path.join(d, f), out)
    meta = json.load(open(os.path.join(d, "meta.json"))) if os.path.exists(os.path.join(d, "meta.json")) else {}
    caught = r.get("check_exit") == 1 and r.get("check_violation_lines", 0) > 0
    meta["coordinator_run"] = dict(r, what_was_run="tools/run_seeds.py: scratch worktree of /repo HEAD (with the fix: commits); demo.py on clean and patched tree; VERIF_REPO=<patched> ./check %s quick" % sid.split("-")[0],
                                   caught=caught,
                                   caught_with_concrete_input=bool(caught and r.get("violations", 0) > 0))
    json.dump(meta, open(os.path.join(out, "meta.json"), "w"), indent=1)
    print(sid, "caught" if caught else "MISSED", "concrete" if meta["coordinator_run"]["caught_with_concrete_input"] else "-",
          "demo %s/%s" % (r.get("demo_clean_exit"), r.get("demo_patched_exit")), r.get("error", ""))

#!/usr/bin/env python3
"""Regenerate MANIFEST.json from manifest.d/Cxx.json fragments (one per claimed property)."""
import json
import os
import sys

ROOT = os.path.dirname(os.path.dirname(os.path.abspath(__file__)))
props = [json.loads(l)["id"] for l in open(os.path.join(ROOT, "properties.jsonl"))]
checks, na = [], []
for pid in props:
    f = os.path.join(ROOT, "manifest.d", pid + ".json")
    if os.path.exists(f):
        d = json.load(open(f))
        if d.get("not_applicable"):
            na.append({"property_id": pid, "reason": d["not_applicable"]})
            continue
        checks.append({
            "property_id": pid,
            "quick_cmd": "./check %s quick" % pid,
            "thorough_cmd": "./check %s thorough" % pid,
            "evidence_file": "/verif/evidence/%s.json" % pid,
            "replay_cmd_template": "./check replay {path}",
            "engine": "coq-model-correspondence",
            "level_claimed": {"category": "proof", "text": d["level_text"], "design_ref": d.get("design_ref", "DESIGN.md section 5, " + pid)},
            "level_note": d["level_note"],
            "technique": d.get("technique", "machine-checked proof in Coq 8.16.1 about a hand-written Gallina model + differential correspondence check of the model against /repo"),
        })
    else:
        na.append({"property_id": pid, "reason": "no check is registered for this property yet: its model, theorems and correspondence (DESIGN.md section 5) are not built in the committed tree, so nothing is claimed"})
man = {
    "version": 1,
    "setup_cmd": "./check setup",
    "hooks": {
        "guard": "PYFLYBY_VERIF",
        "enable": "no in-tree hooks: checks import pyflyby from /repo's working tree (PYTHONPATH=/repo/lib/python) and instrument from the harness process; PYFLYBY_VERIF=1 is set for implementation-side processes but no source line reads it",
        "baseline_off_cmd": "cd /repo && /venv/bin/python -m pytest -ra -q -p no:cacheprovider --timeout=900 --continue-on-collection-errors",
        "source_commits": [],
        "add_only": True,
    },
    "engines": [{"name": "coq-model-correspondence", "path": "/verif/check",
                 "serves_properties": [c["property_id"] for c in checks],
                 "kind_free_text": "Coq 8.16.1 development (coq/theories) with one Properties/Cxx.v per property; harness/cxx.py runs the implementation from /repo and the model (coqc + vm_compute) on the same generated cases and an independent oracle"}],
    "checks": checks,
    "not_applicable": na,
    "notes": "See DESIGN.md. Every check: proof audit (full make, Print Assumptions transcript, forbidden-construct scan) + correspondence model<->/repo + oracle stage; known findings in known_findings.json.",
}
json.dump(man, open(os.path.join(ROOT, "MANIFEST.json"), "w"), indent=1)
# merge known findings fragments
import glob
kf, seen = [], set()
fixed_lines = []
for f in sorted(glob.glob(os.path.join(ROOT, "known_findings.d", "*.json"))):
    d = json.load(open(f))
    for e in d.get("fixed", []):
        fixed_lines.append("fixed: property=%s %s %s (%s)" % (e["property"], e["commit"], e["what"], e["id"]))
    for e in d.get("findings", []):
        if (e["property"], e["id"]) not in seen:
            seen.add((e["property"], e["id"]))
            kf.append(e)
json.dump({"_comment": "committed, never written at run time; open findings suppress only the listed failure (by classifier); 'fixed' lines suppress nothing",
           "findings": kf, "fixed": fixed_lines}, open(os.path.join(ROOT, "known_findings.json"), "w"), indent=1)
print("checks:", [c["property_id"] for c in checks], "not_applicable:", len(na))

#!/usr/bin/env python3
"""Run the pinned pyflyby test command on a tree (default /repo) and compare with BASELINE.json's stable_pass.
usage: baseline_check.py [tree] [extra pytest args...]   -> exit 0 iff every stable_pass test passed."""
import json
import os
import subprocess
import sys
import tempfile
import xml.etree.ElementTree as ET

tree = sys.argv[1] if len(sys.argv) > 1 else "/repo"
extra = sys.argv[2:]
base = json.load(open("/root/.vp/BASELINE.json"))
stable = set(base["stable_pass"])
out = tempfile.mktemp(suffix=".junit.xml", prefix="baseline-")
env = {k: v for k, v in os.environ.items() if not k.startswith("PYFLYBY") and not k.startswith("VERIF")}
cmd = ["/venv/bin/python", "-m", "pytest", "-ra", "-q", "-p", "no:cacheprovider", "--timeout=900",
       "--continue-on-collection-errors", "--junitxml=" + out] + extra
p = subprocess.run(cmd, cwd=tree, env=env, stdout=subprocess.PIPE, stderr=subprocess.STDOUT, text=True)
print(p.stdout[-1500:])
passed = set()
for tc in ET.parse(out).getroot().iter("testcase"):
    if not any(ch.tag in ("failure", "error", "skipped") for ch in tc):
        passed.add("%s::%s" % (tc.get("classname"), tc.get("name")))
os.unlink(out)
missing = sorted(stable - passed)
print("stable_pass: %d, passed now: %d, stable tests not passing: %d" % (len(stable), len(passed & stable), len(missing)))
for m in missing[:40]:
    print("  NOT PASSING:", m)
sys.exit(1 if missing else 0)

#!/bin/bash
# usage: try_seed.sh <dir with patch.diff demo.py> <Cxx> [tier]   - confirm the demo and run the check on a scratch worktree
set -u
D=$1; P=$2; T=${3:-quick}
WT=/tmp/tryseed-$$
git -C /repo worktree add -q $WT HEAD || exit 2
echo "== demo on clean tree"; (cd $WT && PYTHONPATH=$WT/lib/python timeout 300 /venv/bin/python $D/demo.py >/dev/null 2>&1; echo "exit $?")
(cd $WT && git apply $D/patch.diff) || { echo "patch does not apply"; git -C /repo worktree remove --force $WT; exit 2; }
echo "== demo on patched tree"; (cd $WT && PYTHONPATH=$WT/lib/python timeout 300 /venv/bin/python $D/demo.py >/dev/null 2>&1; echo "exit $?")
echo "== check $P $T on patched tree"; (cd /verif && VERIF_REPO=$WT timeout 3000 ./check $P $T 2>&1 | tail -4)
git -C /repo worktree remove --force $WT
